#!/usr/bin/env python3
"""Generate MANIFEST.json from props.json (what gowp checks) and manifest_meta.json (per-property wording)."""
import json, subprocess
props=[json.loads(l) for l in open('/verif/properties.jsonl')]
spec=json.load(open('/verif/props.json'))
meta=json.load(open('/verif/manifest_meta.json'))
hooks=subprocess.run(['git','-C','/repo','log','--format=%h %s'],capture_output=True,text=True).stdout.splitlines()
hook_commits=[l.split()[0] for l in hooks if l.split(' ',1)[1].startswith('verif:')]
checks=[]; na=[]
for p in props:
    pid=p['id']
    if pid in spec and pid in meta.get('claimed',{}):
        m=meta['claimed'][pid]
        checks.append({
          "property_id":pid,
          "quick_cmd":f"./check.sh {pid} quick",
          "thorough_cmd":f"./check.sh {pid} thorough",
          "evidence_file":f"/verif/evidence/{pid}.json",
          "replay_cmd_template":"cat {path}",
          "engine":"gowp",
          "level_claimed":{"category":"proof","text":m['text'],"design_ref":m.get('design_ref','DESIGN.md section 5')},
          "level_note":m['note'],
          "technique":m.get('technique',"contract-based deductive verification: weakest-precondition style VCs generated from the real Go AST against //@ contracts, discharged by z3 5.1 / z3 4.8 / cvc5"),
        })
    else:
        na.append({"property_id":pid,"reason":meta.get('not_applicable',{}).get(pid,"not yet under contract: no obligations are generated for this property (see DESIGN.md section 5 for the plan and section 7 for what is out of reach)")})
man={"version":1,
 "setup_cmd":"cd /verif && ./setup.sh",
 "hooks":{"guard":"verif","enable":"contracts are comment-only files /repo/<pkg>/zz_contracts_verif.go with //go:build verif; gowp loads /repo with -tags=verif. No executable hook code exists.","baseline_off_cmd":"cd /repo && GOFLAGS=-mod=mod GOPROXY=off go test -vet=off -count=1 ./...","source_commits":hook_commits,"add_only":True},
 "engines":[{"name":"gowp","path":"/verif/gowp","serves_properties":[c['property_id'] for c in checks],"kind_free_text":"contract-based deductive verifier for Go written for this repository: symbolic execution of the real function bodies (go/ast + go/types, loaded from /repo on every run) against //@ contracts kept in guarded comment files; one SMT obligation per contract clause, loop invariant, call precondition, run-time-panic site and frame; discharged by z3 5.1.0, z3 4.8.12 and cvc5 1.0 (plus a purified QF_NRA abstraction for polynomial identities)"},
  {"name":"bounded-standins","path":"/verif/bounded","serves_properties":["C01","C02","C03","C04","C05","C06","C07","C08","C09","C10","C11","C12","C13","C14","C15","C16","C17","C18","C19","C20"],"kind_free_text":"bounded stand-ins for code and clauses outside the verifier's reach (assumed contracts makeUmemo, LinearLeastSquares, betacf/gammaInc kernels; numerical-accuracy clauses of C05/C06/C08; the dispatch/Rand wrappers; SCC, Euler.Visit, SimplifyMulti, Dot; the schedule clause of C20 under the race detector; relational clauses of C03/C04/C09/C10/C11/C13/C14/C15/C16; the definition of dominance for C19): in-package Go tests injected with go test -overlay and run against /repo's current tree after the obligations; reported under coverage.bounded, labelled bounded, never counted as proved"}],
 "checks":checks,
 "not_applicable":na,
 "notes":"See DESIGN.md. KNOWN_FINDINGS lists repaired defects (fixed:) and recorded findings (finding:)."}
json.dump(man,open('/verif/MANIFEST.json','w'),indent=1)
print(len(checks),'checks,',len(na),'not applicable')
