#!/usr/bin/env python3
"""Run every seed: confirm it (scratch worktree) and run the property's quick check against it; write meta.json."""
import json, subprocess, sys, os, re
pk={'C04':'stats','C05':'stats','C06':'stats','C07':'stats','C08':'mathx','C15':'fit','C01':'stats','C02':'stats','C03':'stats','C09':'stats','C10':'stats','C11':'stats','C12':'stats','C13':'stats','C14':'stats','C16':'scale','C17':'scale','C18':'graph','C19':'graph/graphalg','C20':'graph'}
extra={'C20-b':['C20','C09'],'C20-a':['C20','C18'],'C01-a':['C01','C03'],'C03-a':['C03','C01'],'C09-a':['C09','C20'],'C10-a':['C10','C20']}
only=sys.argv[1:] 
demo_pkg={'C17-g':'scale'}  # demonstration lives in another package than the changed file
for d in sorted(os.listdir('/verif/seeded')):
    if only and d not in only: continue
    pid=d.split('-')[0]; sd=f'/verif/seeded/{d}'
    pdir=os.path.dirname(re.search(r'^\+\+\+ b/(\S+)',open(sd+'/patch.diff').read(),re.M).group(1))
    pdir=demo_pkg.get(d,pdir)
    v=subprocess.run(['/verif/tools/seed_verify.sh',sd,pdir],capture_output=True,text=True).stdout
    wo=re.search(r'== demo WITHOUT change:\n(.*?)\n==',v,re.S); wi=re.search(r'== demo WITH change:\n(.*?)\n==',v,re.S); su=v.split('== existing suite WITH change:')[-1]
    ok_without = wo and 'ok ' in wo.group(1) and 'FAIL' not in wo.group(1)
    fail_with = wi and 'FAIL' in wi.group(1)
    suite_ok = 'FAIL' not in su and 'ok ' in su
    res={}
    for p in extra.get(d,[pid]):
        c=subprocess.run(['/verif/tools/seed_check.sh',sd,p],capture_output=True,text=True).stdout
        viol=[l for l in c.splitlines() if l.startswith('VIOLATION')]
        res[p]={'exit': 1 if 'exit=1' in c else 0, 'violations': [re.sub(r'.*replay=/verif/work/replay/[^/]*/','',l) for l in viol][:8]}
    notes=open(sd+'/notes.md').read() if os.path.exists(sd+'/notes.md') else ''
    meta={'seed':d,'breaks_property':pid,'written_by':'independent sub-agent given only the property text and a scratch worktree without contract files',
      'needs_to_manifest': notes.split('(b)')[1].split('(c)')[0].strip()[:900] if '(b)' in notes else notes[:600],
      'confirmed':{'demo_passes_without_change':bool(ok_without),'demo_fails_with_change':bool(fail_with),'existing_suite_passes_with_change':bool(suite_ok),'how':'tools/seed_verify.sh in a scratch worktree of /repo HEAD (removed afterwards)'},
      'checks_run':res,'detected':any(r['exit']==1 for r in res.values())}
    json.dump(meta,open(sd+'/meta.json','w'),indent=1)
    print(d,'confirmed' if (ok_without and fail_with and suite_ok) else 'NOT-CONFIRMED', {k:(v['exit'],len(v['violations'])) for k,v in res.items()})
