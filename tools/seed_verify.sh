#!/bin/bash
# usage: seed_verify.sh <seed-dir> <pkgdir-of-demo>
# Confirms, in a scratch worktree of /repo, that a seeded change (patch.diff)
# compiles, passes the existing suite, and that its demonstration fails
# with the change and passes without it.
set -u
export GOFLAGS=-mod=mod GOPROXY=off GOSUMDB=off GOTOOLCHAIN=local
seed=$(readlink -f "$1"); pkg="$2"
wt=$(mktemp -d /dev/shm/seedwt.XXXX); rmdir "$wt"
git -C /repo worktree add --detach "$wt" HEAD >/dev/null 2>&1 || { echo "worktree failed"; exit 2; }
trap 'git -C /repo worktree remove --force "$wt" >/dev/null 2>&1' EXIT
cd "$wt"
cp "$seed"/zz_seed_demo_test.go "$pkg"/zz_seed_demo_test.go
echo "== demo WITHOUT change:"; go test -vet=off -count=1 -run TestSeedDemo ./"$pkg"/ 2>&1 | tail -3
git apply "$seed"/patch.diff || { echo "patch does not apply"; exit 2; }
echo "== demo WITH change:"; go test -vet=off -count=1 -run TestSeedDemo ./"$pkg"/ 2>&1 | tail -4
rm "$pkg"/zz_seed_demo_test.go
echo "== existing suite WITH change:"; go test -vet=off -count=1 ./... 2>&1 | grep -v "no test files"
