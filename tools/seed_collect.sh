#!/bin/bash
# usage: seed_collect.sh <worktree> <seed-id>
# Copies a sub-agent's deliverables (<worktree>/_seed) to /verif/seeded/<seed-id>
# and removes the scratch worktree with its build output.
wt="$1"; id="$2"
[ -f "$wt/_seed/patch.diff" ] || { echo "no deliverables in $wt"; exit 2; }
mkdir -p /verif/seeded/$id
cp "$wt"/_seed/patch.diff "$wt"/_seed/zz_seed_demo_test.go "$wt"/_seed/notes.md /verif/seeded/$id/
git -C /repo worktree remove --force "$wt" && echo "collected $id; removed $wt"
