#!/usr/bin/env python3
"""usage: seed_prompt.py <round> <property-id> "<additional constraint>"
Creates a scratch worktree /tmp/wu<round>_<id> of /repo HEAD without the
contract files and writes the self-contained prompt for an independent
sub-agent to /tmp/prompt<round>_<id>.txt (only the property text is given)."""
import json, subprocess, sys
rnd, pid, extra = sys.argv[1], sys.argv[2], sys.argv[3]
p = next(json.loads(l) for l in open('/verif/properties.jsonl') if json.loads(l)['id'] == pid)
wt = f'/tmp/wu{rnd}_{pid}'
subprocess.run(['git', '-C', '/repo', 'worktree', 'add', '--detach', wt, 'HEAD'], check=True, capture_output=True)
subprocess.run(f'find {wt} -name zz_contracts_verif.go -delete', shell=True, check=True)
txt = f'''You are helping test a verification tool by writing a realistic regression ("seeded bug") for an open-source Go library, aclements/go-moremath (statistics, special functions, scales, graph algorithms).

Your private scratch copy of the library is the git worktree at {wt} . Work ONLY inside that directory (never touch /repo or /verif; do not read anything under /verif). Some files named zz_contracts_verif.go show up as deleted in `git status` there: ignore them completely, do not restore them, and never include them in a diff.

Every shell command that builds or tests must first run:
  export GOFLAGS=-mod=mod GOPROXY=off GOSUMDB=off GOTOOLCHAIN=local
(there is no network). The existing test suite is run with:  cd {wt} && go test -vet=off -count=1 ./...

THE PROPERTY that the library is supposed to satisfy (id {pid}: {p['title']}):

{p['statement']}

Scope of inputs the property quantifies over: {p['quantifier']['text']}

YOUR TASK: make a small, realistic change to the library's NON-TEST source code (a change a developer could plausibly make: a refactor gone slightly wrong, an "optimisation", a boundary condition, a removed defensive copy, a swapped operand, a cache, a reordered statement ...) such that
  1. the library still compiles and the ENTIRE existing test suite still passes (run it and confirm), and
  2. the property above is now violated, but
  3. the violation needs something SPECIFIC to manifest - an unusual input (e.g. particular tie pattern, empty part, boundary value, particular size or ordering), a multi-step sequence of operations, or two cooperating code sites that each look fine alone - not something that ordinary use would expose at once. Do not make a change that breaks the property for nearly every input.
Do not edit or add *_test.go files as part of the change (the demonstration below is separate), do not edit go.mod, and keep the change small (ideally < 15 changed lines, in one or two functions).

Then write a DEMONSTRATION: one Go test file (package-internal test in the affected package, file name zz_seed_demo_test.go) with a test named TestSeedDemo that FAILS with your change and PASSES on the unmodified library. Verify both directions yourself (use `git stash` or `git diff > p; git apply -R p` to go back and forth; leave the worktree WITH your change applied at the end).

DELIVERABLES, all inside {wt}/_seed/ :
  - patch.diff : output of `git diff -- . ':(exclude)*zz_contracts_verif.go' ':(exclude)_seed' ':(exclude)*zz_seed_demo_test.go'` containing only your library change
  - zz_seed_demo_test.go : a copy of the demonstration test, and a line at the top as a comment saying which package directory it belongs in
  - notes.md : (a) one paragraph: what the change is and why a reviewer might accept it; (b) exactly what is needed for the violation to manifest; (c) the commands you ran and their outcomes (existing suite passes with the change; demo fails with the change; demo passes without it).

Finish by replying with a 5-line summary (files changed, what triggers the violation, and the three confirmations).

ADDITIONAL CONSTRAINT: {extra}
'''
open(f'/tmp/prompt{rnd}_{pid}.txt', 'w').write(txt)
print(wt)
