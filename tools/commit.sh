#!/bin/bash
# usage: tools/commit.sh "<message>"  - regenerate MANIFEST/DESIGN, run every
# check on the unchanged tree, and commit /verif only if all of them pass.
cd /verif
bin/gowp symbols > symbols.json.new && mv symbols.json.new symbols.json || { echo "symbols failed"; exit 2; }
python3 mkmanifest.py >/dev/null && python3 mkdesign.py >/dev/null || { echo "generation failed"; exit 2; }
./runall.sh > work/runall.log 2>&1; rc=$?
if [ $rc -ne 0 ] || grep -q VIOLATION work/runall.log; then
  echo "NOT committed: runall rc=$rc"; grep -E 'VIOLATION' work/runall.log | head -5; exit 1
fi
git add -A && git commit -qm "$1" && git log --oneline | head -1
