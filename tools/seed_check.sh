#!/bin/bash
# usage: seed_check.sh <seed-dir> <property-id>...
# Applies the seeded change to /repo, runs the quick checks, undoes it
# (with git apply -R, so uncommitted contract edits are never lost).
seed=$(readlink -f "$1"); shift
cd /repo && git apply "$seed"/patch.diff || { echo "patch does not apply"; exit 2; }
trap 'cd /repo && git apply -R "$seed"/patch.diff' EXIT
for p in "$@"; do (cd /verif && ./check.sh $p quick); echo "exit=$?"; done
