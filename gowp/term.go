package main

// SMT term trees, sorts, simplifying constructors and printing.

import (
	"fmt"
	"math/big"
	"sort"
	"strings"
)

type Sort string

const (
	SInt   Sort = "Int"
	SReal  Sort = "Real"
	SBool  Sort = "Bool"
	SXR    Sort = "XR"
	SBV32  Sort = "(_ BitVec 32)"
	SSlice Sort = "Slice"
)

func ArrSort(idx, elem Sort) Sort { return Sort("(Array " + string(idx) + " " + string(elem) + ")") }

// Term is an SMT-LIB term tree. Op is the head symbol (or the literal /
// constant name when len(Args)==0). Quantifiers use Op "forall"/"exists"
// with Bound set and Args[0] the body.
type Term struct {
	Op    string
	Args  []*Term
	Sort  Sort
	Bound []BoundVar // for quantifiers
	Pat   []*Term    // optional patterns for quantifiers
	Alt   bool       // Pat lists alternative single patterns rather than one multi-pattern
	str   string
}

type BoundVar struct {
	Name string
	Sort Sort
}

func (t *Term) String() string {
	if t.str != "" {
		return t.str
	}
	var s string
	switch {
	case t.Op == "forall" || t.Op == "exists":
		var b strings.Builder
		b.WriteString("(" + t.Op + " (")
		for _, v := range t.Bound {
			fmt.Fprintf(&b, "(%s %s)", v.Name, v.Sort)
		}
		b.WriteString(") ")
		if len(t.Pat) > 0 {
			b.WriteString("(! " + t.Args[0].String())
			if t.Alt {
				for _, p := range t.Pat {
					b.WriteString(" :pattern (" + p.String() + ")")
				}
				b.WriteString("))")
			} else {
				b.WriteString(" :pattern (")
				for i, p := range t.Pat {
					if i > 0 {
						b.WriteString(" ")
					}
					b.WriteString(p.String())
				}
				b.WriteString(")))")
			}
		} else {
			b.WriteString(t.Args[0].String() + ")")
		}
		s = b.String()
	case len(t.Args) == 0:
		s = t.Op
	default:
		var b strings.Builder
		b.WriteString("(" + t.Op)
		for _, a := range t.Args {
			b.WriteString(" ")
			b.WriteString(a.String())
		}
		b.WriteString(")")
		s = b.String()
	}
	t.str = s
	return s
}

func mk(op string, sort Sort, args ...*Term) *Term { return &Term{Op: op, Args: args, Sort: sort} }

var (
	tTrue  = mk("true", SBool)
	tFalse = mk("false", SBool)
)

func IntLit(n int64) *Term {
	if n < 0 {
		return mk("-", SInt, mk(fmt.Sprint(-n), SInt))
	}
	return mk(fmt.Sprint(n), SInt)
}

func BigIntLit(n *big.Int) *Term {
	if n.Sign() < 0 {
		return mk("-", SInt, mk(new(big.Int).Neg(n).String(), SInt))
	}
	return mk(n.String(), SInt)
}

func RatLit(r *big.Rat) *Term {
	num, den := r.Num(), r.Denom()
	var t *Term
	abs := new(big.Int).Abs(num)
	if den.Cmp(big.NewInt(1)) == 0 {
		t = mk(abs.String()+".0", SReal)
	} else {
		t = mk("/", SReal, mk(abs.String()+".0", SReal), mk(den.String()+".0", SReal))
	}
	if num.Sign() < 0 {
		t = mk("-", SReal, t)
	}
	return t
}

func isLit(t *Term, s string) bool { return len(t.Args) == 0 && t.Op == s }

func intVal(t *Term) (int64, bool) {
	if t.Sort != SInt {
		return 0, false
	}
	if len(t.Args) == 0 {
		var n int64
		if _, err := fmt.Sscanf(t.Op, "%d", &n); err == nil && fmt.Sprint(n) == t.Op {
			return n, true
		}
		return 0, false
	}
	if t.Op == "-" && len(t.Args) == 1 {
		if n, ok := intVal(t.Args[0]); ok {
			return -n, true
		}
	}
	return 0, false
}

func And(ts ...*Term) *Term {
	var out []*Term
	for _, t := range ts {
		if t == nil || isLit(t, "true") {
			continue
		}
		if isLit(t, "false") {
			return tFalse
		}
		if t.Op == "and" {
			out = append(out, t.Args...)
		} else {
			out = append(out, t)
		}
	}
	if len(out) == 0 {
		return tTrue
	}
	if len(out) == 1 {
		return out[0]
	}
	return mk("and", SBool, out...)
}

func Or(ts ...*Term) *Term {
	var out []*Term
	for _, t := range ts {
		if t == nil || isLit(t, "false") {
			continue
		}
		if isLit(t, "true") {
			return tTrue
		}
		out = append(out, t)
	}
	if len(out) == 0 {
		return tFalse
	}
	if len(out) == 1 {
		return out[0]
	}
	return mk("or", SBool, out...)
}

func Not(t *Term) *Term {
	if isLit(t, "true") {
		return tFalse
	}
	if isLit(t, "false") {
		return tTrue
	}
	if t.Op == "not" && len(t.Args) == 1 {
		return t.Args[0]
	}
	return mk("not", SBool, t)
}

func Implies(a, b *Term) *Term {
	if isLit(a, "true") {
		return b
	}
	if isLit(a, "false") || isLit(b, "true") {
		return tTrue
	}
	return mk("=>", SBool, a, b)
}

func Eq(a, b *Term) *Term {
	if a.String() == b.String() {
		return tTrue
	}
	if x, ok := intVal(a); ok {
		if y, ok := intVal(b); ok {
			if x == y {
				return tTrue
			}
			return tFalse
		}
	}
	if a.Sort != b.Sort {
		panic(fmt.Sprintf("Eq: sort mismatch %s:%s vs %s:%s", a, a.Sort, b, b.Sort))
	}
	return mk("=", SBool, a, b)
}

func Ite(c, a, b *Term) *Term {
	if isLit(c, "true") {
		return a
	}
	if isLit(c, "false") {
		return b
	}
	if a.String() == b.String() {
		return a
	}
	if a.Sort != b.Sort {
		panic(fmt.Sprintf("Ite: sort mismatch %s:%s vs %s:%s", a, a.Sort, b, b.Sort))
	}
	return mk("ite", a.Sort, c, a, b)
}

func Add(a, b *Term) *Term {
	if x, ok := intVal(a); ok {
		if y, ok := intVal(b); ok {
			return IntLit(x + y)
		}
		if x == 0 {
			return b
		}
	}
	if y, ok := intVal(b); ok && y == 0 {
		return a
	}
	return mk("+", a.Sort, a, b)
}

// IdxAdd builds the address off+i of a slice element. Unless off is the
// literal 0 the sum is kept syntactically (even for i == 0), so that
// quantified facts of the form  forall k. ... arr[off+k] ...  match ground
// element terms by E-matching.
func IdxAdd(off, i *Term) *Term {
	if o, ok := intVal(off); ok && o == 0 {
		return i
	}
	if _, ok := intVal(off); ok {
		return Add(off, i)
	}
	// sub-slices: off = base + lo. Address relative to the root offset, so
	// that quantified facts about the parent slice match.
	for off.Op == "+" && len(off.Args) == 2 && off.Sort == SInt {
		if _, lit := intVal(off.Args[0]); lit {
			break
		}
		i = Add(off.Args[1], i)
		off = off.Args[0]
	}
	return mk("idx", SInt, off, i)
}

func Sub(a, b *Term) *Term {
	if x, ok := intVal(a); ok {
		if y, ok := intVal(b); ok {
			return IntLit(x - y)
		}
	}
	if y, ok := intVal(b); ok && y == 0 {
		return a
	}
	return mk("-", a.Sort, a, b)
}

func Mul(a, b *Term) *Term {
	if x, ok := intVal(a); ok {
		if y, ok := intVal(b); ok {
			return IntLit(x * y)
		}
		if x == 1 {
			return b
		}
	}
	if y, ok := intVal(b); ok && y == 1 {
		return a
	}
	return mk("*", a.Sort, a, b)
}

func Neg(a *Term) *Term {
	if x, ok := intVal(a); ok {
		return IntLit(-x)
	}
	return mk("-", a.Sort, a)
}

func Lt(a, b *Term) *Term { return mk("<", SBool, a, b) }
func Le(a, b *Term) *Term { return mk("<=", SBool, a, b) }
func Gt(a, b *Term) *Term { return mk(">", SBool, a, b) }
func Ge(a, b *Term) *Term { return mk(">=", SBool, a, b) }

func Select(arr, idx *Term) *Term {
	// (select (store a i v) i) -> v when syntactically equal
	if arr.Op == "store" && arr.Args[1].String() == idx.String() {
		return arr.Args[2]
	}
	es := elemSortOfArray(arr.Sort)
	return mk("select", es, arr, idx)
}

func Store(arr, idx, v *Term) *Term {
	// overwrite of the same cell
	if arr.Op == "store" && arr.Args[1].String() == idx.String() {
		return mk("store", arr.Sort, arr.Args[0], idx, v)
	}
	return mk("store", arr.Sort, arr, idx, v)
}

// MergeTerm builds ite(g, a, b) but pushes the choice through stores into
// the same cell and through constructor applications, so that later
// selects and field reads simplify syntactically.
func MergeTerm(g, a, b *Term) *Term {
	if a == b || a.String() == b.String() {
		return a
	}
	if a.Op == "store" && b.Op == "store" && a.Args[0].String() == b.Args[0].String() && a.Args[1].String() == b.Args[1].String() {
		return Store(a.Args[0], a.Args[1], MergeTerm(g, a.Args[2], b.Args[2]))
	}
	if a.Op == "store" && a.Args[0].String() == b.String() {
		return Store(b, a.Args[1], MergeTerm(g, a.Args[2], Select(b, a.Args[1])))
	}
	if b.Op == "store" && b.Args[0].String() == a.String() {
		return Store(a, b.Args[1], MergeTerm(g, Select(a, b.Args[1]), b.Args[2]))
	}
	if strings.HasPrefix(a.Op, "mk_") && a.Op == b.Op && len(a.Args) == len(b.Args) && len(a.Args) > 0 {
		args := make([]*Term, len(a.Args))
		for i := range a.Args {
			args[i] = MergeTerm(g, a.Args[i], b.Args[i])
		}
		return mk(a.Op, a.Sort, args...)
	}
	return Ite(g, a, b)
}

// elemSortOfArray parses "(Array I E)".
func elemSortOfArray(s Sort) Sort {
	str := string(s)
	if !strings.HasPrefix(str, "(Array ") {
		panic("not an array sort: " + str)
	}
	body := str[len("(Array ") : len(str)-1]
	// split index sort from elem sort at top-level space
	depth := 0
	for i, c := range body {
		switch c {
		case '(':
			depth++
		case ')':
			depth--
		case ' ':
			if depth == 0 {
				return Sort(body[i+1:])
			}
		}
	}
	panic("bad array sort " + str)
}

func ToReal(a *Term) *Term {
	if a.Sort == SReal {
		return a
	}
	if x, ok := intVal(a); ok {
		return RatLit(big.NewRat(x, 1))
	}
	switch {
	case a.Op == "+" && len(a.Args) == 2:
		return mk("+", SReal, ToReal(a.Args[0]), ToReal(a.Args[1]))
	case a.Op == "-" && len(a.Args) == 2:
		return mk("-", SReal, ToReal(a.Args[0]), ToReal(a.Args[1]))
	case a.Op == "-" && len(a.Args) == 1:
		return mk("-", SReal, ToReal(a.Args[0]))
	case a.Op == "*" && len(a.Args) == 2:
		return mk("*", SReal, ToReal(a.Args[0]), ToReal(a.Args[1]))
	}
	return mk("to_real", SReal, a)
}

func Forall(bv []BoundVar, body *Term, pats ...*Term) *Term {
	if isLit(body, "true") {
		return tTrue
	}
	return &Term{Op: "forall", Args: []*Term{body}, Sort: SBool, Bound: bv, Pat: pats}
}

// ForallAlt: like Forall, but each pattern is an alternative trigger.
func ForallAlt(bv []BoundVar, body *Term, pats ...*Term) *Term {
	t := Forall(bv, body, pats...)
	if t.Op == "forall" {
		t.Alt = true
	}
	return t
}

func Exists(bv []BoundVar, body *Term) *Term {
	return &Term{Op: "exists", Args: []*Term{body}, Sort: SBool, Bound: bv}
}

// walk visits every subterm.
func (t *Term) walk(f func(*Term)) {
	f(t)
	for _, a := range t.Args {
		a.walk(f)
	}
	for _, p := range t.Pat {
		p.walk(f)
	}
}

// symbols collects leaf/head symbols used in t.
func collectSyms(t *Term, into map[string]bool) {
	t.walk(func(x *Term) { into[x.Op] = true })
}

// hasBound reports whether t mentions any of the names (used to detect
// applications under binders).
func mentions(t *Term, names map[string]bool) bool {
	found := false
	t.walk(func(x *Term) {
		if len(x.Args) == 0 && names[x.Op] {
			found = true
		}
	})
	return found
}

// ---------------------------------------------------------------------

// SymTab records declared constants and functions so that each obligation
// can emit exactly the declarations it needs.
type SymTab struct {
	decls map[string]string // name -> full (declare-...) text
	order []string
	n     map[string]int
}

func NewSymTab() *SymTab { return &SymTab{decls: map[string]string{}, n: map[string]int{}} }

func sanitize(s string) string {
	var b strings.Builder
	for _, c := range s {
		switch {
		case c >= 'a' && c <= 'z', c >= 'A' && c <= 'Z', c >= '0' && c <= '9', c == '_':
			b.WriteRune(c)
		case c > 127:
			fmt.Fprintf(&b, "u%x", c)
		default:
			b.WriteRune('_')
		}
	}
	return b.String()
}

// Fresh declares a new constant.
func (s *SymTab) Fresh(hint string, sort Sort) *Term {
	hint = sanitize(hint)
	s.n[hint]++
	name := fmt.Sprintf("%s!%d", hint, s.n[hint])
	s.decls[name] = fmt.Sprintf("(declare-const %s %s)", name, sort)
	s.order = append(s.order, name)
	return mk(name, sort)
}

// Const declares (idempotently) a named constant.
func (s *SymTab) Const(name string, sort Sort) *Term {
	if _, ok := s.decls[name]; !ok {
		s.decls[name] = fmt.Sprintf("(declare-const %s %s)", name, sort)
		s.order = append(s.order, name)
	}
	return mk(name, sort)
}

// Func declares (idempotently) an uninterpreted function.
func (s *SymTab) Func(name string, args []Sort, res Sort) {
	if _, ok := s.decls[name]; ok {
		return
	}
	var as []string
	for _, a := range args {
		as = append(as, string(a))
	}
	s.decls[name] = fmt.Sprintf("(declare-fun %s (%s) %s)", name, strings.Join(as, " "), res)
	s.order = append(s.order, name)
}

// DeclsFor returns the declarations needed by the given terms, in
// declaration order.
func (s *SymTab) DeclsFor(ts []*Term, extraText string) []string {
	used := map[string]bool{}
	for _, t := range ts {
		collectSyms(t, used)
	}
	// also pick up names mentioned textually in extra prelude text
	var out []string
	for _, n := range s.order {
		if used[n] || (extraText != "" && strings.Contains(extraText, n)) {
			out = append(out, s.decls[n])
		}
	}
	return out
}

func sortedKeys[V any](m map[string]V) []string {
	var ks []string
	for k := range m {
		ks = append(ks, k)
	}
	sort.Strings(ks)
	return ks
}

// alphaKey renders t with bound variables renamed canonically (by binder
// depth and position), so that two terms equal up to the names of their bound
// variables get the same key.
func alphaKey(t *Term) string {
	var b strings.Builder
	var rec func(t *Term, env map[string]string, depth int)
	rec = func(t *Term, env map[string]string, depth int) {
		if len(t.Bound) > 0 {
			env2 := make(map[string]string, len(env)+len(t.Bound))
			for k, v := range env {
				env2[k] = v
			}
			b.WriteString("(" + t.Op + " (")
			for i, bv := range t.Bound {
				n := fmt.Sprintf("?b%d_%d", depth, i)
				env2[bv.Name] = n
				b.WriteString("(" + n + " " + string(bv.Sort) + ")")
			}
			b.WriteString(") ")
			for _, a := range t.Args {
				rec(a, env2, depth+1)
			}
			b.WriteString(")")
			return
		}
		if len(t.Args) == 0 {
			if n, ok := env[t.Op]; ok {
				b.WriteString(n)
			} else {
				b.WriteString(t.Op)
			}
			b.WriteString(" ")
			return
		}
		b.WriteString("(" + t.Op + " ")
		for _, a := range t.Args {
			rec(a, env, depth)
		}
		b.WriteString(")")
	}
	rec(t, map[string]string{}, 0)
	return b.String()
}
