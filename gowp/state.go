package main

import (
	"fmt"
	"go/types"
)

// Val is a typed SMT value. For a sequence view (contract-level view of a
// slice in some heap) Seq is non-nil and T is the backing array term.
type Val struct {
	T   *Term
	Ty  *Ty
	Seq *SeqView
}

type SeqView struct {
	Off, Len *Term
	Elem     *Ty
	Slice    *Term // the Go slice value this view came from, if any
}

// State is a symbolic program state. States are treated as immutable
// except through their owner; fork with clone().
type State struct {
	vars    map[types.Object]*Term // local value, or address when heapified
	heaps   map[string]*Term
	globals map[types.Object]*Term
	alloc   *Term // == chain[last] + allocOff
	pc      []*Term
	// allocation bookkeeping for syntactic distinctness of heap keys
	chain    []*Term // successive allocation-counter bases, each >= the previous base + its final offset
	allocOff int64
	bounds   map[string]allocBound // term < chain[idx] + c
	neq      map[string]bool
}

type allocBound struct {
	idx int
	c   int64
}

func newState() *State {
	return &State{vars: map[types.Object]*Term{}, heaps: map[string]*Term{}, globals: map[types.Object]*Term{},
		bounds: map[string]allocBound{}, neq: map[string]bool{}}
}

// setAllocBase starts a new allocation-counter base (>= the current counter).
func (s *State) setAllocBase(base *Term) {
	s.chain = append(append([]*Term(nil), s.chain...), base)
	s.allocOff = 0
	s.alloc = base
}

// bump allocates one fresh region/address and returns it.
func (s *State) bump() *Term {
	r := s.alloc
	s.allocOff++
	s.alloc = Add(s.chain[len(s.chain)-1], IntLit(s.allocOff))
	return r
}

// exactAlloc recognises terms chain[i] + c.
func (s *State) exactAlloc(t *Term) (int, int64, bool) {
	base, c := t, int64(0)
	if t.Op == "+" && len(t.Args) == 2 {
		if n, ok := intVal(t.Args[1]); ok {
			base, c = t.Args[0], n
		}
	}
	for i := len(s.chain) - 1; i >= 0; i-- {
		if s.chain[i] == base || s.chain[i].String() == base.String() {
			return i, c, true
		}
	}
	return 0, 0, false
}

func pairKey(a, b *Term) string {
	x, y := a.String(), b.String()
	if x > y {
		x, y = y, x
	}
	return x + "|" + y
}

// distinct: a != b is known syntactically on this path.
func (s *State) distinct(a, b *Term) bool {
	if s.neq[pairKey(a, b)] {
		return true
	}
	if x, ok := intVal(a); ok {
		if y, ok := intVal(b); ok {
			return x != y
		}
	}
	ia, ca, ea := s.exactAlloc(a)
	ib, cb, eb := s.exactAlloc(b)
	if ea && eb {
		return ia != ib || ca != cb
	}
	if ea {
		if bd, ok := s.bounds[b.String()]; ok {
			return ia > bd.idx || (ia == bd.idx && ca >= bd.c)
		}
		if y, ok := intVal(b); ok && y == 0 {
			return true // allocated addresses are >= 1
		}
	}
	if eb {
		if bd, ok := s.bounds[a.String()]; ok {
			return ib > bd.idx || (ib == bd.idx && cb >= bd.c)
		}
		if y, ok := intVal(a); ok && y == 0 {
			return true
		}
	}
	return false
}

// sel reads h[key], skipping stores to cells known to be distinct.
func (s *State) sel(h, key *Term) *Term {
	for h.Op == "store" {
		k := h.Args[1]
		if k == key || k.String() == key.String() {
			return h.Args[2]
		}
		if s.distinct(k, key) {
			h = h.Args[0]
			continue
		}
		break
	}
	return Select(h, key)
}

// learn records syntactic facts from an assumed formula.
func (s *State) learn(t *Term) {
	switch {
	case t.Op == "not" && t.Args[0].Op == "=" && t.Args[0].Args[0].Sort == SInt:
		s.neq[pairKey(t.Args[0].Args[0], t.Args[0].Args[1])] = true
	case t.Op == "<" && t.Args[0].Sort == SInt:
		if i, c, ok := s.exactAlloc(t.Args[1]); ok {
			k := t.Args[0].String()
			if old, have := s.bounds[k]; !have || i < old.idx || (i == old.idx && c < old.c) {
				s.bounds[k] = allocBound{i, c}
			}
		}
	}
}

func (s *State) clone() *State {
	n := &State{vars: make(map[types.Object]*Term, len(s.vars)), heaps: make(map[string]*Term, len(s.heaps)),
		globals: make(map[types.Object]*Term, len(s.globals)), alloc: s.alloc, chain: s.chain, allocOff: s.allocOff,
		bounds: make(map[string]allocBound, len(s.bounds)), neq: make(map[string]bool, len(s.neq))}
	for k, v := range s.bounds {
		n.bounds[k] = v
	}
	for k, v := range s.neq {
		n.neq[k] = v
	}
	for k, v := range s.vars {
		n.vars[k] = v
	}
	for k, v := range s.heaps {
		n.heaps[k] = v
	}
	for k, v := range s.globals {
		n.globals[k] = v
	}
	n.pc = append([]*Term(nil), s.pc...)
	return n
}

func (s *State) assume(t *Term) {
	if t == nil || isLit(t, "true") {
		return
	}
	if t.Op == "and" {
		for _, a := range t.Args {
			s.assume(a)
		}
		return
	}
	if str := t.String(); len(str) < 400 {
		for i := len(s.pc) - 1; i >= 0 && i >= len(s.pc)-64; i-- {
			if s.pc[i] == t || (len(s.pc[i].String()) == len(str) && s.pc[i].String() == str) {
				return
			}
		}
	}
	s.pc = append(s.pc, t)
	s.learn(t)
}

// heap returns the current term of the named heap, creating the entry
// symbol on first use (entry heaps are shared through Exec.heap0).
func (x *Exec) heap(st *State, name string, sort Sort) *Term {
	if x.heapTrace != nil {
		x.heapTrace[name] = true
	}
	if h, ok := st.heaps[name]; ok {
		return h
	}
	h0, ok := x.heap0[name]
	if !ok {
		h0 = x.sym.Const(name+"@0", sort)
		x.heap0[name] = h0
		x.heapSorts[name] = sort
	}
	st.heaps[name] = h0
	return h0
}

// mergeStates joins two states that share a common path-condition prefix.
func (x *Exec) mergeStates(a, b *State) *State {
	if a == nil {
		return b
	}
	if b == nil {
		return a
	}
	// common prefix
	n := 0
	for n < len(a.pc) && n < len(b.pc) && a.pc[n] == b.pc[n] {
		n++
	}
	ga := And(a.pc[n:]...)
	gb := And(b.pc[n:]...)
	m := newState()
	m.pc = append([]*Term(nil), a.pc[:n]...)
	// allocation chain: common prefix
	cp := 0
	for cp < len(a.chain) && cp < len(b.chain) && a.chain[cp] == b.chain[cp] {
		cp++
	}
	for k, v := range a.bounds {
		if w, ok := b.bounds[k]; ok && w == v && v.idx < cp {
			m.bounds[k] = v
		}
	}
	for k := range a.neq {
		if b.neq[k] {
			m.neq[k] = true
		}
	}
	// name the guard so that ite terms stay small
	var g *Term
	if len(ga.String()) > 40 {
		g = x.sym.Fresh("g", SBool)
		m.pc = append(m.pc, Eq(g, ga))
	} else {
		g = ga
	}
	m.pc = append(m.pc, Or(ga, gb))
	pick := func(hint string, ta, tb *Term) *Term {
		if ta == tb || ta.String() == tb.String() {
			return ta
		}
		it := MergeTerm(g, ta, tb)
		if (it.Op == "ite" && len(it.String()) > 400) || len(it.String()) > 1500 {
			f := x.sym.Fresh("m_"+hint, ta.Sort)
			m.pc = append(m.pc, Implies(g, Eq(f, ta)), Implies(Not(g), Eq(f, tb)))
			return f
		}
		return it
	}
	for k, va := range a.vars {
		if vb, ok := b.vars[k]; ok {
			m.vars[k] = pick(k.Name(), va, vb)
		}
	}
	for k, va := range a.globals {
		if vb, ok := b.globals[k]; ok {
			m.globals[k] = pick(k.Name(), va, vb)
		} else {
			m.globals[k] = va
		}
	}
	for k, vb := range b.globals {
		if _, ok := m.globals[k]; !ok {
			m.globals[k] = vb
		}
	}
	names := map[string]bool{}
	for k := range a.heaps {
		names[k] = true
	}
	for k := range b.heaps {
		names[k] = true
	}
	for k := range names {
		ha := x.heap(a, k, x.heapSorts[k])
		hb := x.heap(b, k, x.heapSorts[k])
		m.heaps[k] = pick(k, ha, hb)
		if mh := m.heaps[k]; mh.Op == "store" && mh != ha && mh != hb {
			// the choice was pushed into a store: also state it at the
			// level of whole heaps, so that spec functions applied to
			// whole arrays are seen to agree on the branch that did
			// not write (no extensionality reasoning needed).
			m.pc = append(m.pc, Implies(g, Eq(mh, ha)), Implies(Not(g), Eq(mh, hb)))
		}
	}
	if cp == len(a.chain) && cp == len(b.chain) && a.allocOff == b.allocOff {
		m.chain, m.allocOff, m.alloc = a.chain, a.allocOff, a.alloc
	} else if cp == len(a.chain) && cp == len(b.chain) {
		// same base, different offsets: continue from the larger one
		m.chain = a.chain
		m.allocOff = a.allocOff
		if b.allocOff > m.allocOff {
			m.allocOff = b.allocOff
		}
		m.alloc = Add(m.chain[len(m.chain)-1], IntLit(m.allocOff))
	} else {
		na := x.sym.Fresh("alloc", SInt)
		m.pc = append(m.pc, Ge(na, a.alloc), Ge(na, b.alloc))
		m.chain = append(append([]*Term(nil), a.chain[:cp]...), na)
		m.allocOff = 0
		m.alloc = na
	}
	return m
}

func (x *Exec) mergeAll(sts []*State) *State {
	var m *State
	for _, s := range sts {
		m = x.mergeStates(m, s)
	}
	return m
}

// ---------------------------------------------------------------------
// slices and heaps

func slReg(s *Term) *Term { return fieldOfMk(s, 0, "sl_reg") }
func slOff(s *Term) *Term { return fieldOfMk(s, 1, "sl_off") }
func slLen(s *Term) *Term { return fieldOfMk(s, 2, "sl_len") }
func slCap(s *Term) *Term { return fieldOfMk(s, 3, "sl_cap") }

func fieldOfMk(s *Term, i int, sel string) *Term {
	if s.Op == "mk_slice" && len(s.Args) == 4 {
		return s.Args[i]
	}
	return mk(sel, SInt, s)
}

func mkSlice(reg, off, ln, cp *Term) *Term { return mk("mk_slice", SSlice, reg, off, ln, cp) }

var nilSlice = mkSlice(IntLit(0), IntLit(0), IntLit(0), IntLit(0))

// wfSlice: structural well-formedness of a slice value allocated before
// `alloc`.
func wfSlice(s, alloc *Term) *Term {
	return And(Le(IntLit(0), slReg(s)), Lt(slReg(s), alloc), Le(IntLit(0), slOff(s)),
		Le(IntLit(0), slLen(s)), Le(slLen(s), slCap(s)),
		Implies(Eq(slReg(s), IntLit(0)), Eq(slCap(s), IntLit(0))))
}

func (x *Exec) elemHeapOf(st *State, elem *Ty) (string, *Term) {
	es := x.w.sortOf(elem, x.model)
	n, hs := elemHeap(es)
	if x.heapElemTy == nil {
		x.heapElemTy = map[string]*Ty{}
	}
	x.heapElemTy[n] = elem
	return n, x.heap(st, n, hs)
}

func (x *Exec) ptrHeapOf(st *State, pointee *Ty) (string, *Term) {
	ps := x.w.sortOf(pointee, x.model)
	n, hs := ptrHeap(ps)
	if x.heapElemTy == nil {
		x.heapElemTy = map[string]*Ty{}
	}
	x.heapElemTy[n] = pointee
	return n, x.heap(st, n, hs)
}

// seqOf views a Go slice value in state st.
func (x *Exec) seqOf(v Val, st *State) Val {
	if v.Seq != nil {
		return v
	}
	if v.Ty.K != TSlice {
		panic(fmt.Sprintf("seqOf: not a slice: %s", v.T))
	}
	_, h := x.elemHeapOf(st, v.Ty.Elem)
	arr := st.sel(h, slReg(v.T))
	return Val{T: arr, Ty: v.Ty, Seq: &SeqView{Off: slOff(v.T), Len: slLen(v.T), Elem: v.Ty.Elem, Slice: v.T}}
}

func (x *Exec) seqIndex(s Val, i *Term) Val {
	return Val{T: Select(s.T, IdxAdd(s.Seq.Off, i)), Ty: s.Seq.Elem}
}

// typeInv: facts that hold of every value of Go type ty allocated before
// alloc (unsigned ranges, slice well-formedness).
func (x *Exec) typeInv(v *Term, ty *Ty, alloc *Term) *Term {
	switch ty.K {
	case TInt:
		var cs []*Term
		if ty.Unsigned {
			cs = append(cs, Ge(v, IntLit(0)))
			if ty.Bits == 8 {
				cs = append(cs, Le(v, IntLit(255)))
			}
		}
		return And(cs...)
	case TSlice:
		if ty.Go != nil {
			if at, ok := ty.Go.Underlying().(*types.Array); ok {
				n := IntLit(at.Len())
				return And(wfSlice(v, alloc), Eq(slLen(v), n), Eq(slCap(v), n), Not(Eq(slReg(v), IntLit(0))))
			}
		}
		return wfSlice(v, alloc)
	case TPtr:
		return And(Le(IntLit(0), v), Lt(v, alloc))
	case TStruct:
		var cs []*Term
		for i, f := range ty.Struct.Fields {
			cs = append(cs, x.typeInv(x.structGet(v, ty, i), f.Ty, alloc))
		}
		return And(cs...)
	}
	return tTrue
}

func (x *Exec) structGet(v *Term, ty *Ty, i int) *Term {
	sn := string(x.w.sortOf(ty, x.model))
	if v.Op == "mk_"+sn && len(v.Args) == len(ty.Struct.Fields) {
		return v.Args[i]
	}
	if v.Op == "ite" && len(v.Args) == 3 {
		// a struct value merged at a join: select the field in both branches
		// (keeps the arithmetic about one field free of the others' case splits)
		a, b := x.structGet(v.Args[1], ty, i), x.structGet(v.Args[2], ty, i)
		if a == b || a.String() == b.String() {
			return a
		}
		return Ite(v.Args[0], a, b)
	}
	f := ty.Struct.Fields[i]
	return mk(sn+"_"+sanitize(f.Name), x.w.sortOf(f.Ty, x.model), v)
}

func (x *Exec) structSet(v *Term, ty *Ty, i int, nv *Term) *Term {
	sn := string(x.w.sortOf(ty, x.model))
	args := make([]*Term, len(ty.Struct.Fields))
	for j := range ty.Struct.Fields {
		if j == i {
			args[j] = nv
		} else {
			args[j] = x.structGet(v, ty, j)
		}
	}
	return mk("mk_"+sn, Sort(sn), args...)
}

func (x *Exec) mkStruct(ty *Ty, fields []*Term) *Term {
	sn := string(x.w.sortOf(ty, x.model))
	return mk("mk_"+sn, Sort(sn), fields...)
}

// zero value of a type
func (x *Exec) zero(ty *Ty) *Term {
	switch ty.K {
	case TInt, TPtr, TOpaque:
		return IntLit(0)
	case TReal:
		return mk("0.0", SReal)
	case TFloat:
		return x.floatLit(mk("0.0", SReal))
	case TBool:
		return tFalse
	case TBV32:
		return mk("#x00000000", SBV32)
	case TSlice:
		return nilSlice
	case TStruct:
		var fs []*Term
		for _, f := range ty.Struct.Fields {
			fs = append(fs, x.zero(f.Ty))
		}
		return x.mkStruct(ty, fs)
	}
	panic("zero: unsupported type")
}

func (x *Exec) floatLit(r *Term) *Term {
	if x.model.Float == SXR {
		return mk("fin", SXR, r)
	}
	return r
}
