package main

import (
	"fmt"
	"strings"
)

// basePrelude is emitted at the top of every obligation. All definitions
// are non-recursive define-funs, so they add no axioms.
const basePrelude = `
(declare-datatypes ((Slice 0)) (((mk_slice (sl_reg Int) (sl_off Int) (sl_len Int) (sl_cap Int)))))
(declare-datatypes ((XR 0)) (((fin (val Real)) (pinf) (ninf) (nan))))
(define-fun tdiv ((a Int) (b Int)) Int
  (ite (>= a 0) (ite (> b 0) (div a b) (- (div a (- b))))
                (ite (> b 0) (- (div (- a) b)) (div (- a) (- b)))))
(define-fun tmod ((a Int) (b Int)) Int (- a (* b (tdiv a b))))
(define-fun rtrunc ((x Real)) Int (ite (>= x 0.0) (to_int x) (- (to_int (- x)))))
(define-fun rfloor ((x Real)) Real (to_real (to_int x)))
(define-fun rceil ((x Real)) Real (- (to_real (to_int (- x)))))
(define-fun rabs ((x Real)) Real (ite (>= x 0.0) x (- x)))
(define-fun rmin ((x Real) (y Real)) Real (ite (<= x y) x y))
(define-fun rmax ((x Real) (y Real)) Real (ite (>= x y) x y))
(define-fun imin ((x Int) (y Int)) Int (ite (<= x y) x y))
(define-fun imax ((x Int) (y Int)) Int (ite (>= x y) x y))
(define-fun xisfin ((a XR)) Bool ((_ is fin) a))
(define-fun xisnan ((a XR)) Bool ((_ is nan) a))
(define-fun xsgn ((a XR)) Int
  (ite ((_ is fin) a) (ite (> (val a) 0.0) 1 (ite (< (val a) 0.0) (- 1) 0))
  (ite ((_ is pinf) a) 1 (ite ((_ is ninf) a) (- 1) 0))))
(define-fun xneg ((a XR)) XR
  (ite ((_ is fin) a) (fin (- (val a))) (ite ((_ is pinf) a) ninf (ite ((_ is ninf) a) pinf nan))))
(define-fun xadd ((a XR) (b XR)) XR
  (ite (or ((_ is nan) a) ((_ is nan) b)) nan
  (ite ((_ is fin) a) (ite ((_ is fin) b) (fin (+ (val a) (val b))) b)
  (ite ((_ is fin) b) a (ite (= a b) a nan)))))
(define-fun xsub ((a XR) (b XR)) XR (xadd a (xneg b)))
(define-fun xmul ((a XR) (b XR)) XR
  (ite (or ((_ is nan) a) ((_ is nan) b)) nan
  (ite (and ((_ is fin) a) ((_ is fin) b)) (fin (* (val a) (val b)))
  (ite (or (= (xsgn a) 0) (= (xsgn b) 0)) nan
  (ite (= (xsgn a) (xsgn b)) pinf ninf)))))
(define-fun xdiv ((a XR) (b XR)) XR
  (ite (or ((_ is nan) a) ((_ is nan) b)) nan
  (ite ((_ is fin) b)
     (ite ((_ is fin) a)
        (ite (not (= (val b) 0.0)) (fin (/ (val a) (val b)))
             (ite (= (val a) 0.0) nan (ite (> (val a) 0.0) pinf ninf)))
        ; a infinite, b finite (a zero divisor counts as +0)
        (ite (>= (val b) 0.0) a (xneg a)))
     ; b infinite
     (ite ((_ is fin) a) (fin 0.0) nan))))
(define-fun xlt ((a XR) (b XR)) Bool
  (and (not ((_ is nan) a)) (not ((_ is nan) b))
    (ite ((_ is fin) a) (ite ((_ is fin) b) (< (val a) (val b)) ((_ is pinf) b))
    (ite ((_ is ninf) a) (not ((_ is ninf) b)) false))))
(define-fun xle ((a XR) (b XR)) Bool
  (and (not ((_ is nan) a)) (not ((_ is nan) b)) (or (= a b) (xlt a b))))
(define-fun xeq ((a XR) (b XR)) Bool (and (not ((_ is nan) a)) (= a b)))
(define-fun xabs ((a XR)) XR (ite ((_ is fin) a) (fin (rabs (val a))) (ite ((_ is nan) a) nan pinf)))
(define-fun xfloor ((a XR)) XR (ite ((_ is fin) a) (fin (rfloor (val a))) a))
(define-fun xceil ((a XR)) XR (ite ((_ is fin) a) (fin (rceil (val a))) a))
(define-fun xmin ((a XR) (b XR)) XR
  (ite (or ((_ is nan) a) ((_ is nan) b)) nan (ite (xle a b) a b)))
(define-fun xmax ((a XR) (b XR)) XR
  (ite (or ((_ is nan) a) ((_ is nan) b)) nan (ite (xle b a) a b)))
(declare-fun conv_undef (XR) Int)
(define-fun xtrunc ((a XR)) Int (ite ((_ is fin) a) (rtrunc (val a)) (conv_undef a)))
(declare-fun idx (Int Int) Int)
(assert (forall ((o Int) (i Int)) (! (= (idx o i) (+ o i)) :pattern ((idx o i)))))
; --- end of prelude ---
`

// bvPrelude is only emitted for model bv.
func bvPrelude() string {
	var b strings.Builder
	// shift-left / logical shift-right of a 32-bit word by an Int count,
	// Go semantics (0 for counts >= 32; count is a uint so >= 0).
	for _, op := range []struct{ name, smt string }{{"shl32", "bvshl"}, {"shr32", "bvlshr"}} {
		fmt.Fprintf(&b, "(define-fun %s ((w (_ BitVec 32)) (c Int)) (_ BitVec 32)\n", op.name)
		for i := 0; i < 32; i++ {
			fmt.Fprintf(&b, " (ite (= c %d) (%s w #x%08x)", i, op.smt, i)
		}
		b.WriteString(" #x00000000")
		b.WriteString(strings.Repeat(")", 32))
		b.WriteString(")\n")
	}
	// trailing zeros as an Int (32 for zero)
	b.WriteString("(define-fun tz32 ((w (_ BitVec 32))) Int\n")
	for i := 0; i < 32; i++ {
		fmt.Fprintf(&b, " (ite (= ((_ extract %d %d) w) #b1) %d", i, i, i)
	}
	b.WriteString(" 32")
	b.WriteString(strings.Repeat(")", 32))
	b.WriteString(")\n")
	return b.String()
}
