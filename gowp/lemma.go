package main

import "fmt"

// lemmaHyps: proved lemmas are available to obligations as (quantified)
// hypotheses. (filled in by lemma support)
func (x *Exec) lemmaHyps(o *Obligation) []*Term { return nil }

func (e *Engine) lemmaObligations(lm *Lemma) ([]*Obligation, error) {
	return nil, fmt.Errorf("lemmas not yet supported")
}
