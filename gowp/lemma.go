package main

import (
	"fmt"
	"go/types"
	"strings"
)

// Lemmas are sentences about spec functions and arithmetic. A lemma is
// proved by its own obligations (for `induction v`: a base case v <= base
// and a step that may use the lemma at v-1 for all values of the other
// parameters). A function contract may then `use` a proved lemma: it is
// added as a universally quantified hypothesis to that function's
// obligations.

func (e *Engine) lemmaExec(lm *Lemma) *Exec {
	x := &Exec{eng: e, w: e.w, key: "lemma." + lm.Name, model: modelByName(lm.Model), sym: NewSymTab(),
		heap0: map[string]*Term{}, heapSorts: map[string]Sort{}, entryVals: map[string]Val{},
		heapified: map[types.Object]bool{}, usedSpecs: map[string]bool{}, trusted: map[string]bool{},
		ord: map[string]int{}, closures: map[int64]*closure{}, global0: map[types.Object]*Term{}}
	return x
}

// lemmaParams declares the parameters as constants (or, for quantified use,
// as bound variables when bound != nil).
func (x *Exec) lemmaParams(lm *Lemma, asBound bool) (map[string]Val, []BoundVar) {
	env := &CEnv{x: x, pkg: x.eng.pkgTypes[lm.Pkg]}
	vals := map[string]Val{}
	var bvs []BoundVar
	for _, p := range lm.Params {
		ty := env.cty(p.Type)
		if ty.K == TSlice {
			es := x.w.sortOf(ty.Elem, x.model)
			var arr, off, ln *Term
			if asBound {
				na, no, nl := x.freshBound(p.Name), x.freshBound(p.Name+"_off"), x.freshBound(p.Name+"_len")
				arr, off, ln = mk(na, ArrSort(SInt, es)), mk(no, SInt), mk(nl, SInt)
				bvs = append(bvs, BoundVar{na, arr.Sort}, BoundVar{no, SInt}, BoundVar{nl, SInt})
			} else {
				arr = x.sym.Const("lp_"+p.Name, ArrSort(SInt, es))
				off = x.sym.Const("lp_"+p.Name+"_off", SInt)
				ln = x.sym.Const("lp_"+p.Name+"_len", SInt)
			}
			vals[p.Name] = Val{T: arr, Ty: ty, Seq: &SeqView{Off: off, Len: ln, Elem: ty.Elem}}
			continue
		}
		s := x.w.sortOf(ty, x.model)
		if asBound {
			n := x.freshBound(p.Name)
			vals[p.Name] = Val{T: mk(n, s), Ty: ty}
			bvs = append(bvs, BoundVar{n, s})
		} else {
			vals[p.Name] = Val{T: x.sym.Const("lp_"+p.Name, s), Ty: ty}
		}
	}
	return vals, bvs
}

func (x *Exec) lemmaFormula(lm *Lemma, vals map[string]Val) (*Term, *Term) {
	env := &CEnv{x: x, pkg: x.eng.pkgTypes[lm.Pkg], bound: vals, specMode: true}
	var req, ens []*Term
	for _, r := range lm.Requires {
		req = append(req, env.evalBool(r.E))
	}
	// sequence parameters carry len >= 0
	for _, v := range vals {
		if v.Seq != nil {
			req = append(req, Ge(v.Seq.Len, IntLit(0)))
		}
	}
	for _, r := range lm.Ensures {
		ens = append(ens, env.evalBool(r.E))
	}
	return And(req...), And(ens...)
}

// quantified returns the lemma as a closed universally quantified formula.
func (x *Exec) lemmaQuantified(lm *Lemma) *Term {
	vals, bvs := x.lemmaParams(lm, true)
	req, ens := x.lemmaFormula(lm, vals)
	var pats []*Term
	if len(lm.Trigger) > 0 {
		env := &CEnv{x: x, pkg: x.eng.pkgTypes[lm.Pkg], bound: vals, specMode: true}
		for _, t := range lm.Trigger {
			pats = append(pats, env.eval(t).T)
		}
	}
	return Forall(bvs, Implies(req, ens), pats...)
}

func (e *Engine) lemmaObligations(lm *Lemma) (obls []*Obligation, err error) {
	x := e.lemmaExec(lm)
	defer func() {
		if r := recover(); r != nil {
			switch r := r.(type) {
			case engineError:
				err = fmt.Errorf("lemma %s: %s", lm.Name, r.msg)
			case string:
				err = fmt.Errorf("lemma %s: %s", lm.Name, r)
			default:
				panic(r)
			}
		}
	}()
	vals, _ := x.lemmaParams(lm, false)
	req, ens := x.lemmaFormula(lm, vals)
	hyps := []*Term{req}
	if lm.Induction != "" {
		iv, ok := vals[lm.Induction]
		if !ok || iv.T.Sort != SInt {
			return nil, fmt.Errorf("lemma %s: induction variable %s must be an int parameter", lm.Name, lm.Induction)
		}
		// induction hypothesis: the lemma for all parameter values with the
		// induction variable one smaller.
		if lm.SameParams {
			// the lemma at v-1 with the other parameters unchanged: ground
			vals2 := map[string]Val{}
			for k, v := range vals {
				vals2[k] = v
			}
			vals2[lm.Induction] = Val{T: Sub(iv.T, IntLit(1)), Ty: iv.Ty}
			req2, ens2 := x.lemmaFormula(lm, vals2)
			hyps = append(hyps, Implies(req2, ens2))
		} else {
			vals2, bvs := x.lemmaParams(lm, true)
			req2, ens2 := x.lemmaFormula(lm, vals2)
			ih := Forall(bvs, Implies(And(Eq(vals2[lm.Induction].T, Sub(iv.T, IntLit(1))), req2), ens2))
			hyps = append(hyps, ih)
		}
	}
	for _, un := range lm.Uses {
		ul := e.lemmas[un]
		if ul == nil {
			return nil, fmt.Errorf("lemma %s: unknown lemma %s", lm.Name, un)
		}
		// only lemmas declared earlier may be used (no circular proofs)
		before := false
		for _, n := range e.lemmaOrder {
			if n == un {
				before = true
			}
			if n == lm.Name {
				break
			}
		}
		if !before {
			return nil, fmt.Errorf("lemma %s: lemma %s must be declared before it is used", lm.Name, un)
		}
		hyps = append(hyps, x.lemmaQuantified(ul))
	}
	if len(lm.By) > 0 {
		benv := &CEnv{x: x, pkg: e.pkgTypes[lm.Pkg], bound: vals, specMode: true}
		for _, call := range lm.By {
			if e.lemmas[call.Name] == nil || !e.declaredBefore(call.Name, lm.Name) {
				return nil, fmt.Errorf("lemma %s: by %s: unknown lemma or not declared earlier", lm.Name, call.Name)
			}
			hyps = append(hyps, x.lemmaInstance(benv, call))
		}
	}
	for i, part := range splitGoal(ens) {
		name := fmt.Sprintf("lemma.%s#%d", lm.Name, i+1)
		obls = append(obls, &Obligation{Name: name, Func: "lemma." + lm.Name, Kind: "lemma", Hyps: hyps, Goal: part, X: x,
			Src: lemmaSrc(lm)})
	}
	return obls, nil
}

func lemmaSrc(lm *Lemma) string {
	var s []string
	for _, r := range lm.Requires {
		s = append(s, "requires "+r.Src)
	}
	for _, r := range lm.Ensures {
		s = append(s, "ensures "+r.Src)
	}
	return strings.Join(s, "; ")
}

// lemmaHyps: lemmas named in the function contract's `use` list, as
// quantified hypotheses.
func (x *Exec) lemmaHyps(o *Obligation) []*Term {
	if x.fc == nil || len(x.fc.Uses) == 0 {
		return nil
	}
	var out []*Term
	for _, name := range x.fc.Uses {
		// `use lemma @substr`: only for obligations whose name contains substr
		if k := strings.Index(name, "@"); k >= 0 {
			scope := strings.TrimSpace(name[k+1:])
			name = strings.TrimSpace(name[:k])
			if !strings.Contains(o.Name, scope) {
				continue
			}
		}
		lm := x.eng.lemmas[name]
		if lm == nil {
			panic(engineError{"unknown lemma " + name})
		}
		if modelByName(lm.Model).Float != x.model.Float && lm.Model != "" {
			// lemmas over ints only are model independent
		}
		out = append(out, x.lemmaQuantified(lm))
	}
	return out
}

// lemmaInstance: the lemma named by call (lemma(args...)) instantiated with
// the given arguments evaluated in env:  requires => ensures, a ground formula.
func (x *Exec) lemmaInstance(env *CEnv, call *CExpr) *Term {
	if call.Kind != "call" {
		panic(engineError{"by: lemma application expected, got " + exprSrc(call)})
	}
	lm := x.eng.lemmas[call.Name]
	if lm == nil && call.Name == "pigeonhole" && len(call.Args) == 2 {
		// built-in: pigeonhole(m, N) for a map m with int keys -
		// (forall k :: haskey(m, k) ==> 0 <= k < N) ==> len(m) <= N.
		// A fact of arithmetic about finite sets (a set of integers inside
		// [0, N) has at most N elements), not about the code: the range of the
		// keys stays an obligation of the assertion that applies it.
		m := env.eval(call.Args[0])
		n := env.eval(call.Args[1])
		var mt *types.Map
		if m.Ty != nil && m.Ty.Go != nil {
			mt, _ = m.Ty.Go.Underlying().(*types.Map)
		}
		if mt == nil {
			panic(engineError{"by: pigeonhole(m, N) needs a map"})
		}
		if b, ok := mt.Key().Underlying().(*types.Basic); !ok || b.Info()&types.IsInteger == 0 {
			panic(engineError{"by: pigeonhole(m, N) needs integer keys"})
		}
		st := env.state()
		k := BoundVar{Name: x.freshBound("k"), Sort: SInt}
		kt := mk(k.Name, SInt)
		has := x.mapHas(st, m, Val{T: kt, Ty: tyInt}, mt)
		_, lh := x.mapLenHeap(st, mt)
		x.noteTrusted("built-in lemma pigeonhole(m, N): a map whose integer keys all lie in [0, N) has at most N entries (arithmetic of finite sets, not proved by a solver)")
		return Implies(Forall([]BoundVar{k}, Implies(has, And(Le(IntLit(0), kt), Lt(kt, n.T))), has), Le(st.sel(lh, m.T), n.T))
	}
	if lm == nil {
		panic(engineError{"by: unknown lemma " + call.Name})
	}
	if len(call.Args) != len(lm.Params) {
		panic(engineError{fmt.Sprintf("by: lemma %s expects %d arguments", lm.Name, len(lm.Params))})
	}
	pe := &CEnv{x: x, pkg: x.eng.pkgTypes[lm.Pkg]}
	vals := map[string]Val{}
	for i, p := range lm.Params {
		ty := pe.cty(p.Type)
		v := env.eval(call.Args[i])
		if ty.K == TSlice {
			s := env.asSeq(call.Args[i], v)
			vals[p.Name] = Val{T: s.T, Ty: ty, Seq: &SeqView{Off: s.Seq.Off, Len: s.Seq.Len, Elem: ty.Elem}}
			continue
		}
		vals[p.Name] = Val{T: x.coerceTo(v, ty), Ty: ty}
	}
	req, ens := x.lemmaFormula(lm, vals)
	return Implies(req, ens)
}

func (e *Engine) declaredBefore(a, b string) bool {
	for _, n := range e.lemmaOrder {
		if n == a {
			return true
		}
		if n == b {
			return false
		}
	}
	return false
}
