package main

// Assembly of SMT-LIB scripts for obligations and the solver portfolio.

import (
	"bytes"
	"context"
	"fmt"
	"os"
	"os/exec"
	"path/filepath"
	"sort"
	"strings"
	"sync"
	"time"
)

// specDefs returns define-fun / declare-fun text for the spec functions
// used (transitively) by the obligation, plus the names of the recursive
// (opaque) ones.
func (x *Exec) specDefs() (string, map[string]bool) {
	defs := map[string]string{}
	deps := map[string][]string{}
	rec := map[string]bool{}
	done := map[string]bool{}
	for {
		progress := false
		for _, name := range sortedKeys(x.usedSpecs) {
			if done[name] {
				continue
			}
			done[name] = true
			progress = true
			sf := x.eng.specs[name]
			pe := &CEnv{x: x, pkg: x.eng.pkgTypes[sf.Pkg]}
			sorts, tys := x.specParamSorts(sf, pe)
			rs := x.w.sortOf(pe.cty(sf.Ret), x.model)
			if sf.Rec || sf.Opaque {
				rec[name] = sf.Rec
				var ss []string
				for _, s := range sorts {
					ss = append(ss, string(s))
				}
				defs[name] = fmt.Sprintf("(declare-fun spec_%s (%s) %s)", name, strings.Join(ss, " "), rs)
				if sf.Rec {
					// translate once so that transitively used specs are found
					before := copyKeys(x.usedSpecs)
					var flat []*Term
					for i, s := range sorts {
						flat = append(flat, mk(fmt.Sprintf("sp%d", i), s))
					}
					x.specBodyInstance(sf, flat)
					for k := range x.usedSpecs {
						if !before[k] {
							deps[name] = append(deps[name], k)
						}
					}
				}
				continue
			}
			var params []string
			var flat []*Term
			i := 0
			for k, p := range sf.Params {
				if tys[k].K == TSlice {
					for _, suf := range []string{"", "_off", "_len"} {
						n := "sp_" + p.Name + suf
						params = append(params, fmt.Sprintf("(%s %s)", n, sorts[i]))
						flat = append(flat, mk(n, sorts[i]))
						i++
					}
				} else {
					n := "sp_" + p.Name
					params = append(params, fmt.Sprintf("(%s %s)", n, sorts[i]))
					flat = append(flat, mk(n, sorts[i]))
					i++
				}
			}
			before := copyKeys(x.usedSpecs)
			body := x.specBodyInstance(sf, flat)
			for k := range x.usedSpecs {
				if k != name {
					// dependency if mentioned in body
					if strings.Contains(body.String(), "spec_"+k+" ") || strings.Contains(body.String(), "spec_"+k+")") {
						deps[name] = append(deps[name], k)
					}
				}
				_ = before
			}
			defs[name] = fmt.Sprintf("(define-fun spec_%s (%s) %s %s)", name, strings.Join(params, " "), rs, body)
		}
		if !progress {
			break
		}
	}
	// topological order
	var order []string
	state := map[string]int{}
	var visit func(n string)
	visit = func(n string) {
		if state[n] != 0 {
			return
		}
		state[n] = 1
		ds := deps[n]
		sort.Strings(ds)
		for _, d := range ds {
			visit(d)
		}
		state[n] = 2
		order = append(order, n)
	}
	for _, n := range sortedKeys(defs) {
		visit(n)
	}
	var b strings.Builder
	for _, n := range order {
		if d, ok := defs[n]; ok {
			b.WriteString(d + "\n")
		}
	}
	return b.String(), rec
}

func copyKeys(m map[string]bool) map[string]bool {
	n := map[string]bool{}
	for k := range m {
		n[k] = true
	}
	return n
}

func hasBoundLeaf(t *Term) bool {
	found := false
	t.walk(func(s *Term) {
		if len(s.Args) == 0 && strings.Contains(s.Op, "?") {
			found = true
		}
	})
	return found
}

// unfoldings: ground unfolding instances (fuel 2) of recursive specs.
// Applications that mention bound variables (inside quantified hypotheses)
// cannot be unfolded as they stand; they are instantiated with the skolem
// constants of the goal (the values the goal is about), which gives the
// solver the definitional instances it needs to use such a hypothesis.
func (x *Exec) unfoldings(terms []*Term, rec map[string]bool, fuel int) []*Term {
	var out []*Term
	seen := map[string]bool{}
	// skolem constants by sort
	sk := map[Sort][]*Term{}
	skSeen := map[string]bool{}
	for _, t := range terms {
		t.walk(func(s *Term) {
			if len(s.Args) == 0 && strings.HasPrefix(s.Op, "sk_") && !skSeen[s.Op] {
				skSeen[s.Op] = true
				sk[s.Sort] = append(sk[s.Sort], s)
			}
		})
	}
	var extra []*Term
	if len(skSeen) > 0 {
		openSeen := map[string]bool{}
		var walkQ func(t *Term, bound map[string]Sort)
		walkQ = func(t *Term, bound map[string]Sort) {
			if len(t.Bound) > 0 {
				nb := map[string]Sort{}
				for k, v := range bound {
					nb[k] = v
				}
				for _, bv := range t.Bound {
					nb[bv.Name] = bv.Sort
				}
				bound = nb
			}
			if strings.HasPrefix(t.Op, "spec_") && len(t.Args) > 0 && rec[t.Op[len("spec_"):]] && len(bound) > 0 {
				// bound leaves used by this application
				used := map[string]Sort{}
				t.walk(func(s *Term) {
					if len(s.Args) == 0 {
						if so, ok := bound[s.Op]; ok {
							used[s.Op] = so
						}
					}
				})
				if n := len(used); n >= 1 && n <= 2 && !openSeen[t.String()] {
					openSeen[t.String()] = true
					names := sortedKeys(used)
					var rec2 func(i int, m map[string]*Term)
					rec2 = func(i int, m map[string]*Term) {
						if len(extra) > 48 {
							return
						}
						if i == len(names) {
							extra = append(extra, substTerm(t, m))
							return
						}
						for _, c := range sk[used[names[i]]] {
							// same contract variable name (x?12 ~ sk_x!3): the goal
							// is normally the hypothesis re-proved for a later state
							if hintOf(c.Op) != hintOf(names[i]) {
								continue
							}
							m2 := map[string]*Term{}
							for k, v := range m {
								m2[k] = v
							}
							m2[names[i]] = c
							rec2(i+1, m2)
						}
					}
					rec2(0, map[string]*Term{})
				}
			}
			for _, a := range t.Args {
				walkQ(a, bound)
			}
		}
		for _, t := range terms {
			walkQ(t, map[string]Sort{})
		}
	}
	frontier := append(append([]*Term(nil), terms...), extra...)
	for round := 0; round < fuel; round++ {
		var next []*Term
		for _, t := range frontier {
			t.walk(func(s *Term) {
				if !strings.HasPrefix(s.Op, "spec_") || len(s.Args) == 0 {
					return
				}
				name := s.Op[len("spec_"):]
				if !rec[name] {
					return
				}
				key := s.String()
				if seen[key] || hasBoundLeaf(s) {
					return
				}
				seen[key] = true
				sf := x.eng.specs[name]
				body := x.specBodyInstance(sf, s.Args)
				eq := Eq(s, body)
				out = append(out, eq)
				next = append(next, body)
			})
		}
		frontier = next
	}
	return out
}

// pureFacts: a slice returned by a function assumed pure is a well-formed
// slice header whose storage existed before the verified function was
// entered (its value does not depend on the state, so it cannot have been
// allocated later). One quantified fact per function symbol in use.
func (x *Exec) pureFacts(terms []*Term) []*Term {
	seen := map[string]*Term{}
	for _, t := range terms {
		t.walk(func(s *Term) {
			if strings.HasPrefix(s.Op, "pure_") && s.Sort == "Slice" && len(s.Args) > 0 {
				if _, ok := seen[s.Op]; !ok {
					seen[s.Op] = s
				}
			}
		})
	}
	var out []*Term
	for _, op := range sortedKeys(seen) {
		ex := seen[op]
		var bvs []BoundVar
		var args []*Term
		for i, a := range ex.Args {
			n := fmt.Sprintf("pa%d?%s", i, op)
			bvs = append(bvs, BoundVar{Name: n, Sort: a.Sort})
			args = append(args, mk(n, a.Sort))
		}
		app := mk(op, ex.Sort, args...)
		out = append(out, Forall(bvs, wfSlice(app, x.entry0Alloc()), app))
	}
	return out
}

// mathFacts: ground instances of the axioms for uninterpreted math functions.
func (x *Exec) mathFacts(terms []*Term) []*Term {
	apps := map[string][]*Term{}
	seen := map[string]bool{}
	for _, t := range terms {
		t.walk(func(s *Term) {
			if (strings.HasPrefix(s.Op, "rfn_") || strings.HasPrefix(s.Op, "xfn_")) && len(s.Args) > 0 {
				if !seen[s.String()] && !hasBoundLeaf(s) {
					seen[s.String()] = true
					apps[s.Op] = append(apps[s.Op], s)
				}
			}
		})
	}
	var out []*Term
	zero := mk("0.0", SReal)
	for _, op := range sortedKeys(apps) {
		list := apps[op]
		for _, a := range list {
			arg := a.Args[0]
			switch op {
			case "rfn_sqrt":
				out = append(out, Implies(Ge(arg, zero), And(Ge(a, zero), Eq(mk("*", SReal, a, a), arg))))
			case "xfn_sqrt":
				va, vs := mk("val", SReal, arg), mk("val", SReal, a)
				out = append(out,
					Implies(And(mk("xisfin", SBool, arg), Ge(va, zero)), And(mk("xisfin", SBool, a), Ge(vs, zero), Eq(mk("*", SReal, vs, vs), va))),
					Implies(Or(mk("xisnan", SBool, arg), And(mk("xisfin", SBool, arg), Lt(va, zero)), Eq(arg, mk("ninf", SXR))), mk("xisnan", SBool, a)),
					Implies(Eq(arg, mk("pinf", SXR)), Eq(a, mk("pinf", SXR))))
			case "rfn_exp":
				out = append(out, Gt(a, zero))
			case "xfn_exp":
				out = append(out, Implies(mk("xisnan", SBool, arg), mk("xisnan", SBool, a)),
					Implies(Not(mk("xisnan", SBool, arg)), And(Not(mk("xisnan", SBool, a)), mk("xle", SBool, mk("fin", SXR, zero), a))))
			case "rfn_log":
				// sign of the logarithm: log 1 = 0 and log is strictly increasing on the positives
				one := mk("1.0", SReal)
				out = append(out, Implies(Gt(arg, one), Gt(a, zero)), Implies(Eq(arg, one), Eq(a, zero)),
					Implies(And(Gt(arg, zero), Lt(arg, one)), Lt(a, zero)))
			case "rfn_erfc":
				out = append(out, Gt(a, zero), Lt(a, mk("2.0", SReal)))
			case "rfn_pow":
				out = append(out, Implies(Gt(arg, zero), Gt(a, zero)), Implies(Ge(arg, zero), Ge(a, zero)))
				// small literal exponents: x^1 = x, x^2 = x*x, x^3 = x*x*x
				switch a.Args[1].Op {
				case "1.0":
					out = append(out, Eq(a, arg))
				case "2.0":
					out = append(out, Eq(a, mk("*", SReal, arg, arg)))
				case "3.0":
					out = append(out, Eq(a, mk("*", SReal, arg, mk("*", SReal, arg, arg))))
				}
				// base > 1: the power is above, at or below 1 with the sign of the exponent
				one, ex := mk("1.0", SReal), a.Args[1]
				out = append(out, Implies(And(Gt(arg, one), Gt(ex, zero)), Gt(a, one)),
					Implies(And(Gt(arg, zero), Eq(ex, zero)), Eq(a, one)),
					Implies(And(Gt(arg, one), Lt(ex, zero)), Lt(a, one)))
			case "xfn_pow":
				// positive base: the result is +Inf or a finite non-negative number (0 on underflow), or NaN for a NaN exponent
				out = append(out, Implies(And(mk("xisfin", SBool, arg), Gt(mk("val", SReal, arg), zero), Not(mk("xisnan", SBool, a.Args[1]))),
					Or(Eq(a, mk("pinf", SXR)), And(mk("xisfin", SBool, a), Ge(mk("val", SReal, a), zero)))))
			case "xfn_log":
				va := mk("val", SReal, arg)
				out = append(out,
					Implies(Or(mk("xisnan", SBool, arg), mk("xlt", SBool, arg, mk("fin", SXR, zero))), mk("xisnan", SBool, a)),
					Implies(And(mk("xisfin", SBool, arg), Gt(va, zero)), mk("xisfin", SBool, a)),
					Implies(Eq(arg, mk("fin", SXR, zero)), Eq(a, mk("ninf", SXR))),
					Implies(Eq(arg, mk("pinf", SXR)), Eq(a, mk("pinf", SXR))))
			}
		}
		// erfc(-a) + erfc(a) = 2 (pairwise, ground)
		if op == "rfn_erfc" && len(list) <= 8 {
			for i := 0; i < len(list); i++ {
				for j := i + 1; j < len(list); j++ {
					a, b := list[i], list[j]
					out = append(out, Implies(Eq(a.Args[0], mk("-", SReal, b.Args[0])), Eq(mk("+", SReal, a, b), mk("2.0", SReal))))
				}
			}
		}
		// powers of the same base > 1 are strictly increasing in the exponent
		if op == "rfn_pow" && len(list) <= 6 {
			for i := 0; i < len(list); i++ {
				for j := 0; j < len(list); j++ {
					a, b := list[i], list[j]
					if i == j || a.Args[0].String() != b.Args[0].String() {
						continue
					}
					out = append(out, Implies(And(Gt(a.Args[0], mk("1.0", SReal)), Lt(a.Args[1], b.Args[1])), Lt(a, b)))
					// consecutive exponents: pow(b, e+1) = b * pow(b, e) (b > 0)
					out = append(out, Implies(And(Gt(a.Args[0], zero), Eq(b.Args[1], mk("+", SReal, a.Args[1], mk("1.0", SReal)))),
						Eq(b, mk("*", SReal, a.Args[0], a))))
				}
			}
		}
		// pairwise monotonicity
		mono := map[string]int{"rfn_sqrt": 1, "rfn_exp": 1, "rfn_log": 1, "rfn_erfc": -1}
		if dir, ok := mono[op]; ok && len(list) <= 6 {
			for i := 0; i < len(list); i++ {
				for j := 0; j < len(list); j++ {
					if i == j {
						continue
					}
					a, b := list[i], list[j]
					dom := tTrue
					if op == "rfn_sqrt" {
						dom = And(Ge(a.Args[0], zero), Ge(b.Args[0], zero))
					}
					if op == "rfn_log" {
						dom = And(Gt(a.Args[0], zero), Gt(b.Args[0], zero))
					}
					if dir > 0 {
						out = append(out, Implies(And(dom, Lt(a.Args[0], b.Args[0])), Lt(a, b)))
					} else {
						out = append(out, Implies(And(dom, Lt(a.Args[0], b.Args[0])), Gt(a, b)))
					}
				}
			}
		}
	}
	return out
}

// Script renders the obligation as an SMT-LIB 2 script.
func (o *Obligation) Script(withModel bool) string {
	x := o.X
	var b strings.Builder
	if withModel {
		b.WriteString("(set-option :produce-models true)\n")
	}
	b.WriteString("(set-logic ALL)\n")
	b.WriteString(basePrelude)
	if x.model.BV {
		b.WriteString(bvPrelude())
	}
	head := b.String()
	b.Reset()
	all := append(append([]*Term(nil), o.Hyps...), o.Goal)
	// lemma hypotheses
	lem := x.lemmaHyps(o)
	all = append(all, lem...)
	// spec functions: evaluate usage by scanning terms
	x.usedSpecs = map[string]bool{}
	for _, t := range all {
		t.walk(func(s *Term) {
			if strings.HasPrefix(s.Op, "spec_") {
				x.usedSpecs[s.Op[len("spec_"):]] = true
			}
		})
	}
	specText, rec := x.specDefs()
	fuel := specFuel()
	if x.fc != nil && x.fc.Fuel > 0 && os.Getenv("GOWP_FUEL") == "" {
		fuel = x.fc.Fuel
	}
	unf := x.unfoldings(all, rec, fuel)
	all2 := append(append([]*Term(nil), all...), unf...)
	mf := x.mathFacts(all2)
	mf = append(mf, x.pureFacts(all2)...)
	mf = append(mf, x.boxFacts(all2)...)
	all2 = append(all2, mf...)
	// the spec definitions themselves may mention declared functions
	for _, d := range x.sym.DeclsFor(all2, specText) {
		if strings.HasPrefix(d, "(declare-fun") {
			b.WriteString(d + "\n")
		}
	}
	b.WriteString(specText)
	for _, d := range x.sym.DeclsFor(all2, specText) {
		if !strings.HasPrefix(d, "(declare-fun") {
			b.WriteString(d + "\n")
		}
	}
	for _, h := range o.Hyps {
		b.WriteString("(assert " + h.String() + ")\n")
	}
	for _, h := range lem {
		b.WriteString("(assert " + h.String() + ")\n")
	}
	for _, h := range unf {
		b.WriteString("(assert " + h.String() + ")\n")
	}
	for _, h := range mf {
		b.WriteString("(assert " + h.String() + ")\n")
	}
	b.WriteString("(assert (not " + o.Goal.String() + "))\n")
	b.WriteString("(check-sat)\n")
	if withModel {
		b.WriteString("(get-model)\n")
	}
	body := b.String()
	return head + x.w.structDeclsFor(x.model, body) + body
}

// relaxInts returns a variant of the script in which every Int is read as
// a Real (integrality dropped). Any model of the original is a model of
// the variant, so unsat of the variant implies unsat of the original. Only
// quantifier-free scripts without integer division/rounding qualify.
func relaxInts(script string) (string, bool) {
	const marker = "; --- end of prelude ---\n"
	k := strings.Index(script, marker)
	if k < 0 {
		return "", false
	}
	rest := script[k+len(marker):]
	for _, bad := range []string{"(forall", "(exists", "BitVec", "(div ", "(mod ", "to_int", "tdiv", "tmod", "rtrunc", "rfloor", "rceil", "xfloor", "xceil", "xtrunc", "conv_undef", "tz32", "shl32", "shr32", "XR", "(get-model)"} {
		if strings.Contains(rest, bad) {
			return "", false
		}
	}
	const relaxedPrelude = `
(declare-datatypes ((Slice 0)) (((mk_slice (sl_reg Real) (sl_off Real) (sl_len Real) (sl_cap Real)))))
(define-fun to_real_id ((x Real)) Real x)
(define-fun rabs ((x Real)) Real (ite (>= x 0.0) x (- x)))
(define-fun rmin ((x Real) (y Real)) Real (ite (<= x y) x y))
(define-fun rmax ((x Real) (y Real)) Real (ite (>= x y) x y))
(define-fun imin ((x Real) (y Real)) Real (ite (<= x y) x y))
(define-fun imax ((x Real) (y Real)) Real (ite (>= x y) x y))
`
	// token-level rewrite of the part after the prelude
	var b strings.Builder
	i := 0
	for i < len(rest) {
		c := rest[i]
		if c == '(' || c == ')' || c == ' ' || c == '\n' || c == '\t' {
			b.WriteByte(c)
			i++
			continue
		}
		j := i
		for j < len(rest) && !(rest[j] == '(' || rest[j] == ')' || rest[j] == ' ' || rest[j] == '\n' || rest[j] == '\t') {
			j++
		}
		tok := rest[i:j]
		switch {
		case tok == "Int":
			b.WriteString("Real")
		case tok == "to_real":
			b.WriteString("to_real_id")
		case isDigits(tok):
			b.WriteString(tok + ".0")
		default:
			b.WriteString(tok)
		}
		i = j
	}
	head := "(set-logic ALL)\n"
	return head + relaxedPrelude + strings.ReplaceAll(b.String(), " 0.0)) (((", " 0)) ((("), true
}

func isDigits(s string) bool {
	if s == "" {
		return false
	}
	for _, c := range s {
		if c < '0' || c > '9' {
			return false
		}
	}
	return true
}

// PurifiedScript abstracts the obligation to pure real arithmetic: every
// maximal non-arithmetic subterm becomes a fresh constant (equal terms get
// the same constant), integers are read as reals. Every model of the
// original induces a model of the abstraction, so unsat of the abstraction
// implies unsat of the original; nlsat then decides the polynomial core.
func (o *Obligation) PurifiedScript() string {
	x := o.X
	all := append(append([]*Term(nil), o.Hyps...), x.lemmaHyps(o)...)
	full := append(append([]*Term(nil), all...), o.Goal)
	x.usedSpecs = map[string]bool{}
	for _, t := range full {
		t.walk(func(s *Term) {
			if strings.HasPrefix(s.Op, "spec_") {
				x.usedSpecs[s.Op[len("spec_"):]] = true
			}
		})
	}
	_, rec := x.specDefs()
	unf := x.unfoldings(full, rec, 2)
	all = append(all, unf...)
	all = append(all, x.mathFacts(append(append([]*Term(nil), full...), unf...))...)
	consts := map[string]string{}
	var decls []string
	abstract := func(t *Term, sort string) string {
		k := sort + ":" + t.String()
		if n, ok := consts[k]; ok {
			return n
		}
		n := fmt.Sprintf("a%d", len(consts))
		consts[k] = n
		decls = append(decls, fmt.Sprintf("(declare-const %s %s) ; %s", n, sort, truncate(t.String(), 100)))
		return n
	}
	arithOps := map[string]bool{"+": true, "-": true, "*": true, "/": true}
	funs := map[string]bool{"rabs": true, "rmin": true, "rmax": true, "imin": true, "imax": true}
	var pa func(t *Term) string // arithmetic
	var pb func(t *Term) string // boolean
	isNum := func(s Sort) bool { return s == SInt || s == SReal }
	pa = func(t *Term) string {
		if len(t.Args) == 0 {
			if n, ok := intVal(t); ok {
				return fmt.Sprintf("%d.0", n)
			}
			if len(t.Op) > 0 && t.Op[0] >= '0' && t.Op[0] <= '9' {
				if strings.Contains(t.Op, ".") {
					return t.Op
				}
				return t.Op + ".0"
			}
			return abstract(t, "Real")
		}
		switch {
		case t.Op == "to_real":
			return pa(t.Args[0])
		case arithOps[t.Op] || funs[t.Op]:
			var parts []string
			for _, a := range t.Args {
				parts = append(parts, pa(a))
			}
			return "(" + t.Op + " " + strings.Join(parts, " ") + ")"
		case t.Op == "ite":
			return "(ite " + pb(t.Args[0]) + " " + pa(t.Args[1]) + " " + pa(t.Args[2]) + ")"
		}
		return abstract(t, "Real")
	}
	pb = func(t *Term) string {
		switch t.Op {
		case "true", "false":
			if len(t.Args) == 0 {
				return t.Op
			}
		case "and", "or", "not", "=>":
			var parts []string
			for _, a := range t.Args {
				parts = append(parts, pb(a))
			}
			return "(" + t.Op + " " + strings.Join(parts, " ") + ")"
		case "ite":
			if t.Sort == SBool {
				return "(ite " + pb(t.Args[0]) + " " + pb(t.Args[1]) + " " + pb(t.Args[2]) + ")"
			}
		case "=":
			if isNum(t.Args[0].Sort) {
				return "(= " + pa(t.Args[0]) + " " + pa(t.Args[1]) + ")"
			}
			if t.Args[0].Sort == SBool {
				return "(= " + pb(t.Args[0]) + " " + pb(t.Args[1]) + ")"
			}
		case "<", "<=", ">", ">=":
			return "(" + t.Op + " " + pa(t.Args[0]) + " " + pa(t.Args[1]) + ")"
		}
		return abstract(t, "Bool")
	}
	var asserts []string
	for _, h := range all {
		asserts = append(asserts, "(assert "+pb(h)+")")
	}
	asserts = append(asserts, "(assert (not "+pb(o.Goal)+"))")
	var b strings.Builder
	b.WriteString("(set-logic QF_NRA)\n")
	b.WriteString(`(define-fun rabs ((x Real)) Real (ite (>= x 0.0) x (- x)))
(define-fun rmin ((x Real) (y Real)) Real (ite (<= x y) x y))
(define-fun rmax ((x Real) (y Real)) Real (ite (>= x y) x y))
(define-fun imin ((x Real) (y Real)) Real (ite (<= x y) x y))
(define-fun imax ((x Real) (y Real)) Real (ite (>= x y) x y))
`)
	for _, d := range decls {
		b.WriteString(d + "\n")
	}
	for _, a := range asserts {
		b.WriteString(a + "\n")
	}
	b.WriteString("(check-sat)\n")
	return b.String()
}

// ---------------------------------------------------------------------

type SolveResult struct {
	Status string // unsat sat unknown timeout error
	Solver string
	Ms     int64
	Output string
	Model  string
	Tried  []string
}

type solverSpec struct {
	name string
	argv func(file string, sec int) []string
}

// extraSolvers: variants raced in addition during the second pass (hard
// obligations only). Solver behaviour on quantified queries is sensitive to
// incidental details; different seeds / instantiation strategies make the
// verdict on a valid obligation robust. Any `unsat` is a proof.
var extraSolvers = []solverSpec{
	{"z3-new-5.1.0/seed7", func(f string, s int) []string {
		return []string{"z3-new", "-smt2", fmt.Sprintf("-T:%d", s), "smt.random_seed=7", "sat.random_seed=7", f}
	}},
	{"z3-new-5.1.0/seed23", func(f string, s int) []string {
		return []string{"z3-new", "-smt2", fmt.Sprintf("-T:%d", s), "smt.random_seed=23", "smt.qi.eager_threshold=20", f}
	}},
	{"z3-4.8.12/seed7", func(f string, s int) []string {
		return []string{"z3", "-smt2", fmt.Sprintf("-T:%d", s), "smt.random_seed=7", f}
	}},
	{"cvc5-1.0/enum", func(f string, s int) []string {
		return []string{"cvc5", fmt.Sprintf("--tlimit=%d", s*1000), "--lang=smt2", "--enum-inst", f}
	}},
}

var solvers = []solverSpec{
	{"z3-new-5.1.0", func(f string, s int) []string { return []string{"z3-new", "-smt2", fmt.Sprintf("-T:%d", s), f} }},
	{"z3-4.8.12", func(f string, s int) []string { return []string{"z3", "-smt2", fmt.Sprintf("-T:%d", s), f} }},
	{"cvc5-1.0", func(f string, s int) []string {
		return []string{"cvc5", fmt.Sprintf("--tlimit=%d", s*1000), "--lang=smt2", f}
	}},
}

func runSolver(sp solverSpec, file string, sec int) (string, string, int64) {
	return runSolverCtx(context.Background(), sp, file, sec)
}

func runSolverCtx(parent context.Context, sp solverSpec, file string, sec int) (string, string, int64) {
	ctx, cancel := context.WithTimeout(parent, time.Duration(sec+3)*time.Second)
	defer cancel()
	argv := sp.argv(file, sec)
	cmd := exec.CommandContext(ctx, argv[0], argv[1:]...)
	var out bytes.Buffer
	cmd.Stdout = &out
	cmd.Stderr = &out
	t0 := time.Now()
	_ = cmd.Run()
	ms := time.Since(t0).Milliseconds()
	text := out.String()
	first := strings.TrimSpace(strings.SplitN(text, "\n", 2)[0])
	switch first {
	case "unsat", "sat", "unknown", "timeout":
		return first, text, ms
	}
	if ctx.Err() != nil || strings.Contains(text, "timeout") || strings.Contains(text, "interrupted") {
		return "timeout", text, ms
	}
	return "error", text, ms
}

// getModel re-runs a sat obligation with model production.
func getModel(o *Obligation, workdir string, idx int, sec int) string {
	script := o.Script(true)
	file := filepath.Join(workdir, fmt.Sprintf("m%05d.smt2", idx))
	if err := os.WriteFile(file, []byte(script), 0o644); err != nil {
		return ""
	}
	for _, sp := range solvers[:2] {
		st, out, _ := runSolver(sp, file, sec)
		if st == "sat" {
			return out
		}
	}
	return ""
}

var noRetry = map[string]bool{}

func solveAll(obls []*Obligation, workdir string, quickSec, slowSec int, thorough bool, jobs int) []SolveResult {
	res := make([]SolveResult, len(obls))
	var wg sync.WaitGroup
	// scripts are rendered sequentially (the Exec is not thread-safe); the
	// solvers run in parallel.
	scripts := make([]string, len(obls))
	pure := make([]string, len(obls))
	tr := time.Now()
	defer func() { _ = tr }()
	for i, o := range obls {
		if isLit(o.Goal, "true") && !o.ExpectSat {
			continue
		}
		if !o.ExpectSat && o.Orig != nil && o.Orig.Op != "true" {
			// the goal is literally one of the hypotheses (an invariant conjunct
			// about storage the body does not touch): nothing to solve
			gs := alphaKey(o.Orig)
			hit := false
			for _, h := range o.Hyps {
				if h == o.Orig || (h.Op == o.Orig.Op && len(h.Args) == len(o.Orig.Args) && alphaKey(h) == gs) {
					hit = true
					break
				}
			}
			if hit {
				continue
			}
		}
		scripts[i] = o.Script(false)
		if !o.ExpectSat && (o.X.model.Name == "real" || o.X.model.Name == "int") {
			pure[i] = o.PurifiedScript()
		}
	}
	if os.Getenv("GOWP_TIMING") != "" {
		fmt.Fprintf(os.Stderr, "gowp: rendering took %.1fs\n", time.Since(tr).Seconds())
	}
	run := func(idx []int, jobs, qs, ss int, diversify bool) {
		sem := make(chan struct{}, jobs)
		for _, i := range idx {
			i := i
			wg.Add(1)
			sem <- struct{}{}
			go func() {
				defer wg.Done()
				defer func() { <-sem }()
				t1 := time.Now()
				q1, s1 := qs, ss
				if noRetry[obls[i].Name] && q1 > 5 {
					q1, s1 = 5, 5 // recorded known finding: expected to fail
				}
				res[i] = solveScript(obls[i], scripts[i], pure[i], workdir, i, q1, s1, thorough, diversify)
				if w := time.Since(t1).Seconds(); w > 2 && os.Getenv("GOWP_TIMING") != "" {
					fmt.Fprintf(os.Stderr, "gowp: slow %s wall %.1fs status %s tried %v\n", obls[i].Name, w, res[i].Status, res[i].Tried)
				}
			}()
		}
		wg.Wait()
	}
	// Pass 1: everything, wide, with a short limit (each obligation races
	// up to five solver processes, so 16 jobs oversubscribe the machine
	// when many obligations are hard). Pass 2: what is still undecided,
	// few at a time, with the full limit - so that a timeout reflects the
	// difficulty of the obligation and not the load.
	all := make([]int, len(obls))
	for i := range obls {
		all[i] = i
	}
	if thorough {
		run(all, jobs, quickSec, slowSec, false)
		// what no solver of the base set decided gets the diversified
		// portfolio as in the quick tier (some lemmas are only found by
		// cvc5's enumerative instantiation)
		var again []int
		for i, r := range res {
			if !obls[i].ExpectSat && !noRetry[obls[i].Name] && (r.Status == "timeout" || r.Status == "unknown" || r.Status == "error" && !strings.Contains(r.Output, "disagreement")) {
				again = append(again, i)
			}
		}
		if len(again) > 0 {
			run(again, 3, quickSec, slowSec, true)
		}
	} else {
		// Pass 1: everything, with a limit that leaves room for the load
		// the pass itself creates (each obligation races up to five solver
		// processes). Pass 2: what is still undecided, few at a time, with
		// more time and a diversified portfolio - a timeout on an unchanged
		// tree would be a false alarm, so it must reflect the obligation and
		// not the load.
		run(all, jobs, 3*quickSec, 3*slowSec, false)
		var again []int
		for i, r := range res {
			if !obls[i].ExpectSat && !noRetry[obls[i].Name] && (r.Status == "timeout" || r.Status == "unknown" || r.Status == "error") {
				again = append(again, i)
			}
		}
		if len(again) > 0 {
			run(again, 3, 6*quickSec, 6*slowSec, true)
		}
	}
	return res
}

func solveScript(o *Obligation, script, purified, workdir string, idx, quickSec, slowSec int, thorough, diversify bool) SolveResult {
	if script == "" {
		return SolveResult{Status: "unsat", Solver: "trivial"}
	}
	file := filepath.Join(workdir, fmt.Sprintf("o%05d.smt2", idx))
	if err := os.WriteFile(file, []byte(script), 0o644); err != nil {
		return SolveResult{Status: "error", Output: err.Error()}
	}
	if o.ExpectSat {
		st, out, ms := runSolver(solvers[0], file, 3)
		return SolveResult{Status: st, Solver: solvers[0].name, Ms: ms, Output: out, Tried: []string{solvers[0].name + ":" + st}}
	}
	type r struct {
		st, out, name string
		ms            int64
		direct        bool
	}
	pfile := ""
	if purified != "" {
		pfile = filepath.Join(workdir, fmt.Sprintf("o%05d.purified.smt2", idx))
		if os.WriteFile(pfile, []byte(purified), 0o644) != nil {
			pfile = ""
		}
	}
	// race: every solver on the full query, z3 (both versions) on the
	// purified real-arithmetic abstraction. The first definitive answer on
	// the full query, or the first unsat on the abstraction, decides
	// (quick); thorough waits for everybody and checks agreement.
	ctx, cancel := context.WithCancel(context.Background())
	defer cancel()
	var ch chan r
	n := 0
	ch = make(chan r, 16)
	set := solvers
	if diversify {
		set = append(append([]solverSpec(nil), solvers...), extraSolvers...)
	}
	for _, sp := range set {
		sp := sp
		n++
		go func() {
			s, o2, m := runSolverCtx(ctx, sp, file, quickSec)
			ch <- r{s, o2, sp.name, m, true}
		}()
	}
	if pfile != "" {
		for _, sp := range solvers[:2] {
			sp := sp
			n++
			go func() {
				s, o2, m := runSolverCtx(ctx, sp, pfile, quickSec)
				if s != "unsat" {
					s = "unknown" // a model of the abstraction means nothing
				}
				ch <- r{s, o2, sp.name + "/purified-nra", m, false}
			}()
		}
	}
	var res SolveResult
	res.Status = "unknown"
	statuses := map[string]bool{}
	for i := 0; i < n; i++ {
		got := <-ch
		res.Tried = append(res.Tried, got.name+":"+got.st)
		if got.direct {
			statuses[got.st] = true
		}
		switch {
		case got.st == "unsat" && res.Status != "unsat":
			res.Status, res.Solver, res.Ms, res.Output = "unsat", got.name, got.ms, got.out
			if !thorough {
				return res
			}
		case got.st == "sat" && got.direct && res.Status != "unsat" && res.Status != "sat":
			res.Status, res.Solver, res.Ms, res.Output = "sat", got.name, got.ms, got.out
			if !thorough {
				return res
			}
		case res.Status == "unknown" && got.direct && (got.st == "timeout" || got.st == "error"):
			res.Solver, res.Ms, res.Output = got.name, got.ms, got.out
			if got.st == "timeout" {
				res.Status = "timeout"
			}
		}
	}
	if thorough && statuses["sat"] && statuses["unsat"] {
		res.Status = "error"
		res.Output = "solver disagreement: " + strings.Join(res.Tried, " ")
	}
	if res.Status == "timeout" && statuses["unknown"] {
		res.Status = "unknown"
	}
	return res
}

// hintOf: the contract-level variable name behind a bound variable
// (x?12) or a skolem constant (sk_x!3).
func hintOf(n string) string {
	n = strings.TrimPrefix(n, "sk_")
	if k := strings.IndexAny(n, "?!"); k >= 0 {
		n = n[:k]
	}
	return n
}

// specFuel: rounds of ground unfolding of recursive spec functions (default 2;
// GOWP_FUEL overrides, for experiments).
func specFuel() int {
	if v := os.Getenv("GOWP_FUEL"); v != "" {
		n := 0
		fmt.Sscanf(v, "%d", &n)
		if n > 0 {
			return n
		}
	}
	return 2
}
