package main

// Type descriptors shared by Go-expression translation and contract
// evaluation, and the mapping to SMT sorts under a given arithmetic model.

import (
	"fmt"
	"go/types"
	"strings"
)

type TyKind int

const (
	TInt   TyKind = iota // any Go integer type in a mathematical-int model
	TReal                // spec-level real
	TFloat               // Go float64 (Real in model real, XR in model xreal)
	TBool
	TBV32   // uint32 in model bv
	TSlice  // Go slice value (sort Slice), contents in the element heap
	TPtr    // pointer (Int address), pointee in pointer heap
	TStruct // struct value (datatype)
	TOpaque // interface / func / map / string / chan: Int handle
	TTuple
)

type Ty struct {
	K        TyKind
	Elem     *Ty
	Struct   *StructDesc
	Go       types.Type
	Unsigned bool
	Bits     int // for ints: 8, 32, 64 (0 = int/uint)
	Tuple    []*Ty
	Name     string // for opaque types: a readable name
}

type FieldDesc struct {
	Name string
	Ty   *Ty
}

type StructDesc struct {
	Name   string // SMT sort name
	Fields []FieldDesc
	Ghost  bool
}

func (sd *StructDesc) field(name string) (int, *FieldDesc) {
	for i := range sd.Fields {
		if sd.Fields[i].Name == name {
			return i, &sd.Fields[i]
		}
	}
	return -1, nil
}

var (
	tyInt   = &Ty{K: TInt}
	tyReal  = &Ty{K: TReal}
	tyFloat = &Ty{K: TFloat}
	tyBool  = &Ty{K: TBool}
)

// Model describes the arithmetic model of the function being verified.
type Model struct {
	Name  string // int | real | xreal | bv
	Float Sort   // sort of float64 values
	BV    bool
}

func modelByName(n string) *Model {
	switch n {
	case "", "int", "real":
		if n == "" {
			n = "real"
		}
		return &Model{Name: n, Float: SReal}
	case "xreal":
		return &Model{Name: n, Float: SXR}
	case "bv":
		return &Model{Name: n, Float: SReal, BV: true}
	}
	panic("unknown model " + n)
}

// World holds the type universe: struct descriptors (Go and ghost).
type World struct {
	structs    map[string]*StructDesc // by SMT sort name
	goCache    map[types.Type]*Ty
	structList []*StructDesc
}

func NewWorld() *World {
	return &World{structs: map[string]*StructDesc{}, goCache: map[types.Type]*Ty{}}
}

func (w *World) sortOf(t *Ty, m *Model) Sort {
	switch t.K {
	case TInt:
		return SInt
	case TReal:
		return SReal
	case TFloat:
		return m.Float
	case TBool:
		return SBool
	case TBV32:
		return SBV32
	case TSlice:
		return SSlice
	case TPtr, TOpaque:
		return SInt
	case TStruct:
		return Sort(t.Struct.Name + "_" + m.Name)
	}
	panic(fmt.Sprintf("sortOf: unsupported kind %d", t.K))
}

// structDecls emits datatype declarations for all structs under model m,
// in dependency order (structs are registered after their field types).
func (w *World) structDecls(m *Model) string { return w.structDeclsFor(m, "") }

// structDeclsFor: datatype declarations, in creation (dependency) order, of
// the structs whose sort is mentioned in body - directly or through a field
// of a struct that is. With body == "" all structs are declared. Declaring
// only what an obligation uses makes its script independent of which other
// functions were translated in the same run (solver behaviour is sensitive
// to such incidental differences).
func (w *World) structDeclsFor(m *Model, body string) string {
	type item struct {
		name, decl string
	}
	var items []item
	for _, sd := range w.structList {
		sn := sd.Name + "_" + m.Name
		var b strings.Builder
		fmt.Fprintf(&b, "(declare-datatypes ((%s 0)) (((mk_%s", sn, sn)
		for _, f := range sd.Fields {
			fmt.Fprintf(&b, " (%s_%s %s)", sn, sanitize(f.Name), w.sortOf(f.Ty, m))
		}
		b.WriteString("))))\n")
		items = append(items, item{sn, b.String()})
	}
	need := make([]bool, len(items))
	if body == "" {
		for i := range need {
			need[i] = true
		}
	} else {
		for changed := true; changed; {
			changed = false
			for i, it := range items {
				if need[i] {
					continue
				}
				used := strings.Contains(body, it.name)
				for j, jt := range items {
					if need[j] && j != i && strings.Contains(jt.decl[strings.Index(jt.decl, "((("):], it.name) {
						used = true
					}
				}
				if used {
					need[i] = true
					changed = true
				}
			}
		}
	}
	var out strings.Builder
	for i, it := range items {
		if need[i] {
			out.WriteString(it.decl)
		}
	}
	return out.String()
}

func (w *World) goTy(t types.Type, bv bool) *Ty {
	key := t
	if !bv {
		if c, ok := w.goCache[key]; ok {
			return c
		}
	}
	r := w.goTy1(t, bv)
	if !bv {
		w.goCache[key] = r
	}
	return r
}

func typeName(t types.Type) string {
	if n, ok := t.(*types.Named); ok {
		o := n.Obj()
		if o.Pkg() != nil {
			return o.Pkg().Name() + "_" + o.Name()
		}
		return o.Name()
	}
	if a, ok := t.(*types.Alias); ok {
		return typeName(types.Unalias(a))
	}
	return sanitize(t.String())
}

func (w *World) goTy1(t types.Type, bv bool) *Ty {
	t = types.Unalias(t)
	switch u := t.Underlying().(type) {
	case *types.Basic:
		info := u.Info()
		switch {
		case info&types.IsBoolean != 0:
			return &Ty{K: TBool, Go: t}
		case info&types.IsInteger != 0:
			if bv && u.Kind() == types.Uint32 {
				return &Ty{K: TBV32, Go: t, Unsigned: true, Bits: 32}
			}
			bits := 0
			switch u.Kind() {
			case types.Int8, types.Uint8:
				bits = 8
			case types.Int16, types.Uint16:
				bits = 16
			case types.Int32, types.Uint32:
				bits = 32
			case types.Int64, types.Uint64:
				bits = 64
			}
			return &Ty{K: TInt, Go: t, Unsigned: info&types.IsUnsigned != 0, Bits: bits}
		case info&types.IsFloat != 0:
			return &Ty{K: TFloat, Go: t}
		case info&types.IsString != 0:
			return &Ty{K: TOpaque, Go: t, Name: "string"}
		case u.Kind() == types.UntypedNil:
			return &Ty{K: TOpaque, Go: t, Name: "nil"}
		}
	case *types.Slice:
		return &Ty{K: TSlice, Elem: w.goTy(u.Elem(), bv), Go: t}
	case *types.Pointer:
		return &Ty{K: TPtr, Elem: w.goTy(u.Elem(), bv), Go: t}
	case *types.Struct:
		name := "S_" + typeName(t)
		if bv {
			name += "_b"
		}
		if sd, ok := w.structs[name]; ok {
			return &Ty{K: TStruct, Struct: sd, Go: t}
		}
		sd := &StructDesc{Name: name}
		w.structs[name] = sd // (recursive structs via pointers are fine: pointers are Int)
		for i := 0; i < u.NumFields(); i++ {
			f := u.Field(i)
			sd.Fields = append(sd.Fields, FieldDesc{Name: f.Name(), Ty: w.goTy(f.Type(), bv)})
		}
		w.structList = append(w.structList, sd)
		return &Ty{K: TStruct, Struct: sd, Go: t}
	case *types.Interface, *types.Signature, *types.Map, *types.Chan:
		return &Ty{K: TOpaque, Go: t, Name: typeName(t)}
	case *types.Array:
		// fixed arrays are treated as slices over a dedicated region
		return &Ty{K: TSlice, Elem: w.goTy(u.Elem(), bv), Go: t}
	case *types.Tuple:
		r := &Ty{K: TTuple, Go: t}
		for i := 0; i < u.Len(); i++ {
			r.Tuple = append(r.Tuple, w.goTy(u.At(i).Type(), bv))
		}
		return r
	}
	panic(fmt.Sprintf("goTy: unsupported Go type %s", t))
}

// heap names ------------------------------------------------------------

func sortTag(s Sort) string {
	r := strings.NewReplacer("(", "", ")", "", " ", "_")
	return r.Replace(string(s))
}

// elemHeap returns the name and sort of the element heap for slices whose
// elements have SMT sort es:  region -> (index -> es).
func elemHeap(es Sort) (string, Sort) {
	return "H_" + sortTag(es), ArrSort(SInt, ArrSort(SInt, es))
}

// ptrHeap returns the name and sort of the pointer heap for pointees of
// sort ps:  address -> ps.
func ptrHeap(ps Sort) (string, Sort) {
	return "P_" + sortTag(ps), ArrSort(SInt, ps)
}
