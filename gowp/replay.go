package main

// Counterexample replay: turn a solver model into a Go test that runs the
// REAL function on the model's input and evaluates the contract in Go.

import (
	"bytes"
	"context"
	"fmt"
	"go/types"
	"math/big"
	"os"
	"os/exec"
	"path/filepath"
	"sort"
	"strconv"
	"strings"
	"time"
)

type ReplayResult struct {
	Failed   bool
	Log      string
	TestFile string
}

// ---------------------------------------------------------------------
// S-expressions

type sexp struct {
	atom string
	list []*sexp
}

func parseSexps(s string) []*sexp {
	var out []*sexp
	i := 0
	var parse func() *sexp
	skip := func() {
		for i < len(s) {
			if s[i] == ';' {
				for i < len(s) && s[i] != '\n' {
					i++
				}
			} else if s[i] == ' ' || s[i] == '\n' || s[i] == '\t' || s[i] == '\r' {
				i++
			} else {
				break
			}
		}
	}
	parse = func() *sexp {
		skip()
		if i >= len(s) {
			return nil
		}
		if s[i] == '(' {
			i++
			n := &sexp{list: []*sexp{}}
			for {
				skip()
				if i >= len(s) {
					return n
				}
				if s[i] == ')' {
					i++
					return n
				}
				c := parse()
				if c == nil {
					return n
				}
				n.list = append(n.list, c)
			}
		}
		if s[i] == '"' {
			j := i + 1
			for j < len(s) && s[j] != '"' {
				j++
			}
			a := s[i : j+1]
			i = j + 1
			return &sexp{atom: a}
		}
		j := i
		for j < len(s) && !strings.ContainsRune("() \n\t\r", rune(s[j])) {
			j++
		}
		a := s[i:j]
		i = j
		return &sexp{atom: a}
	}
	for {
		skip()
		if i >= len(s) {
			break
		}
		n := parse()
		if n == nil {
			break
		}
		out = append(out, n)
	}
	return out
}

func (e *sexp) String() string {
	if e.list == nil {
		return e.atom
	}
	var p []string
	for _, c := range e.list {
		p = append(p, c.String())
	}
	return "(" + strings.Join(p, " ") + ")"
}

// numeric value of a model value s-expression (Int or Real)
func sexpRat(e *sexp) (*big.Rat, bool) {
	if e.list == nil {
		a := strings.TrimSuffix(e.atom, "?")
		r, ok := new(big.Rat).SetString(a)
		return r, ok
	}
	if len(e.list) == 2 && e.list[0].atom == "-" {
		r, ok := sexpRat(e.list[1])
		if !ok {
			return nil, false
		}
		return r.Neg(r), true
	}
	if len(e.list) == 3 && e.list[0].atom == "/" {
		a, ok1 := sexpRat(e.list[1])
		b, ok2 := sexpRat(e.list[2])
		if !ok1 || !ok2 || b.Sign() == 0 {
			return nil, false
		}
		return a.Quo(a, b), true
	}
	if len(e.list) >= 2 && e.list[0].atom == "root-obj" {
		return nil, false
	}
	return nil, false
}

// ---------------------------------------------------------------------
// probes

type probe struct {
	term *Term
	val  *sexp
}

type replayCtx struct {
	x       *Exec
	o       *Obligation
	probes  []*probe
	byTerm  map[string]*probe
	bound   int
	pkgName string
	imports map[string]bool
	helpers map[string]string
	qual    types.Qualifier
	regions map[string]*regionInfo // by region value
	tmp     int
	nF, nI  int
	slotF   []string // description per float slot
	slotI   []string
	unsI    map[int]bool
}

type regionInfo struct {
	varName string
	elem    *Ty
	extent  int64
	regTerm *Term
	heap    string
}

func (rc *replayCtx) probe(t *Term) *probe {
	if p, ok := rc.byTerm[t.String()]; ok {
		return p
	}
	p := &probe{term: t}
	rc.byTerm[t.String()] = p
	rc.probes = append(rc.probes, p)
	return p
}

// walkProbes registers every term whose value is needed to build a value
// of type ty from term t. Returns the size constraints to add.
func (rc *replayCtx) walkProbes(t *Term, ty *Ty, cons *[]*Term, depth int) bool {
	x := rc.x
	switch ty.K {
	case TInt, TFloat, TReal, TBool, TBV32:
		rc.probe(t)
		return true
	case TOpaque:
		rc.probe(t)
		return true
	case TStruct:
		for i, f := range ty.Struct.Fields {
			if !rc.walkProbes(x.structGet(t, ty, i), f.Ty, cons, depth+1) {
				return false
			}
		}
		return true
	case TPtr:
		rc.probe(t)
		if ty.Elem.K != TStruct && ty.Elem.K != TInt && ty.Elem.K != TFloat {
			return false
		}
		hn, hs := ptrHeap(x.w.sortOf(ty.Elem, x.model))
		h0, ok := x.heap0[hn]
		if !ok {
			h0 = x.sym.Const(hn+"@0", hs)
		}
		return rc.walkProbes(Select(h0, t), ty.Elem, cons, depth+1)
	case TSlice:
		if depth > 3 {
			return false
		}
		switch ty.Elem.K {
		case TInt, TFloat, TBool, TBV32:
		default:
			return false
		}
		rc.probe(slReg(t))
		rc.probe(slOff(t))
		rc.probe(slLen(t))
		rc.probe(slCap(t))
		b := IntLit(int64(rc.bound))
		*cons = append(*cons, Le(Add(slOff(t), slCap(t)), b), Le(slLen(t), b))
		hn, hs := elemHeap(x.w.sortOf(ty.Elem, x.model))
		h0, ok := x.heap0[hn]
		if !ok {
			h0 = x.sym.Const(hn+"@0", hs)
		}
		for k := 0; k < rc.bound; k++ {
			el := Select(Select(h0, slReg(t)), IntLit(int64(k)))
			rc.probe(el)
			if ty.Elem.K == TInt && ty.Elem.Unsigned {
				*cons = append(*cons, Ge(el, IntLit(0)))
				if ty.Elem.Bits == 8 {
					*cons = append(*cons, Le(el, IntLit(255)))
				}
			}
		}
		return true
	}
	return false
}

func (rc *replayCtx) value(t *Term) *sexp {
	if p, ok := rc.byTerm[t.String()]; ok {
		return p.val
	}
	return nil
}

func (rc *replayCtx) intValue(t *Term) (int64, bool) {
	v := rc.value(t)
	if v == nil {
		return 0, false
	}
	r, ok := sexpRat(v)
	if !ok || !r.IsInt() || !r.Num().IsInt64() {
		return 0, false
	}
	return r.Num().Int64(), true
}

// ---------------------------------------------------------------------
// Go literals from model values

func (rc *replayCtx) goType(ty *Ty) string {
	if ty.Go != nil {
		return types.TypeString(ty.Go, rc.qual)
	}
	switch ty.K {
	case TInt:
		return "int"
	case TFloat, TReal:
		return "float64"
	case TBool:
		return "bool"
	}
	return "interface{}"
}

func floatLiteral(v *sexp) (string, bool) {
	if v == nil {
		return "", false
	}
	// XR values
	if v.list == nil {
		switch v.atom {
		case "pinf":
			return "math.Inf(1)", true
		case "ninf":
			return "math.Inf(-1)", true
		case "nan":
			return "math.NaN()", true
		}
	}
	if v.list != nil && len(v.list) == 2 && v.list[0].atom == "fin" {
		return floatLiteral(v.list[1])
	}
	r, ok := sexpRat(v)
	if !ok {
		return "", false
	}
	f, _ := r.Float64()
	return strconv.FormatFloat(f, 'g', -1, 64), true
}

// goValue builds Go source for the value of term t of type ty.
func (rc *replayCtx) goValue(t *Term, ty *Ty) (string, bool) {
	x := rc.x
	switch ty.K {
	case TInt:
		n, ok := rc.intValue(t)
		if !ok {
			return "", false
		}
		k := rc.nI
		rc.nI++
		rc.slotI = append(rc.slotI, t.String())
		if ty.Unsigned {
			rc.unsI[k] = true
		}
		if ty.Go != nil {
			return fmt.Sprintf("%s(gowpI(%d, %d))", rc.goType(ty), k, n), true
		}
		return fmt.Sprintf("int(gowpI(%d, %d))", k, n), true
	case TBV32:
		v := rc.value(t)
		if v == nil || !strings.HasPrefix(v.atom, "#x") {
			return "", false
		}
		return "uint32(0x" + v.atom[2:] + ")", true
	case TFloat, TReal:
		s, ok := floatLiteral(rc.value(t))
		if ok && strings.HasPrefix(s, "math.") {
			rc.imports["math"] = true
		}
		if ok {
			k := rc.nF
			rc.nF++
			rc.slotF = append(rc.slotF, t.String())
			return fmt.Sprintf("gowpF(%d, %s)", k, s), true
		}
		return "", false
	case TBool:
		v := rc.value(t)
		if v == nil {
			return "", false
		}
		return v.atom, true
	case TStruct:
		var fs []string
		for i, f := range ty.Struct.Fields {
			fv, ok := rc.goValue(x.structGet(t, ty, i), f.Ty)
			if !ok {
				return "", false
			}
			fs = append(fs, f.Name+": "+fv)
		}
		return rc.goType(ty) + "{" + strings.Join(fs, ", ") + "}", true
	case TPtr:
		a, ok := rc.intValue(t)
		if !ok {
			return "", false
		}
		if a == 0 {
			return "(" + rc.goType(ty) + ")(nil)", true
		}
		hn, hs := ptrHeap(x.w.sortOf(ty.Elem, x.model))
		h0, ok := x.heap0[hn]
		if !ok {
			h0 = x.sym.Const(hn+"@0", hs)
		}
		ev, ok := rc.goValue(Select(h0, t), ty.Elem)
		if !ok {
			return "", false
		}
		if ty.Elem.K == TStruct {
			return "&" + ev, true
		}
		return "func() " + rc.goType(ty) + " { v := " + ev + "; return &v }()", true
	case TSlice:
		reg, ok1 := rc.intValue(slReg(t))
		off, ok2 := rc.intValue(slOff(t))
		ln, ok3 := rc.intValue(slLen(t))
		cp, ok4 := rc.intValue(slCap(t))
		if !ok1 || !ok2 || !ok3 || !ok4 {
			return "", false
		}
		if reg == 0 {
			return "(" + rc.goType(ty) + ")(nil)", true
		}
		if ln > cp {
			cp = ln
		}
		key := fmt.Sprintf("%s:%d", x.w.sortOf(ty.Elem, x.model), reg)
		ri := rc.regions[key]
		if ri == nil {
			ri = &regionInfo{varName: fmt.Sprintf("backing%d", len(rc.regions)), elem: ty.Elem, regTerm: slReg(t)}
			rc.regions[key] = ri
		}
		if off+cp > ri.extent {
			ri.extent = off + cp
		}
		return fmt.Sprintf("%s(%s[%d:%d:%d])", rc.goType(ty), ri.varName, off, off+ln, off+cp), true
	case TOpaque:
		return "", false
	}
	return "", false
}

func (rc *replayCtx) regionDecls() (string, bool) {
	x := rc.x
	var keys []string
	for k := range rc.regions {
		keys = append(keys, k)
	}
	sort.Strings(keys)
	var b strings.Builder
	for _, k := range keys {
		ri := rc.regions[k]
		hn, hs := elemHeap(x.w.sortOf(ri.elem, x.model))
		h0, ok := x.heap0[hn]
		if !ok {
			h0 = x.sym.Const(hn+"@0", hs)
		}
		var els []string
		for i := int64(0); i < ri.extent; i++ {
			ev, ok := rc.goValue(Select(Select(h0, ri.regTerm), IntLit(i)), ri.elem)
			if !ok {
				// unconstrained cell: zero
				ev = "0"
				if ri.elem.K == TBool {
					ev = "false"
				}
			}
			els = append(els, ev)
		}
		fmt.Fprintf(&b, "\t%s := []%s{%s}\n", ri.varName, rc.goType(ri.elem), strings.Join(els, ", "))
	}
	return b.String(), true
}

// ---------------------------------------------------------------------

func runCmd(dir string, timeout time.Duration, env []string, name string, args ...string) (string, error) {
	ctx, cancel := context.WithTimeout(context.Background(), timeout)
	defer cancel()
	cmd := exec.CommandContext(ctx, name, args...)
	cmd.Dir = dir
	cmd.Env = append(os.Environ(), env...)
	var out bytes.Buffer
	cmd.Stdout = &out
	cmd.Stderr = &out
	err := cmd.Run()
	return out.String(), err
}

// tryReplay builds and runs the replay test. model is unused (values are
// obtained with get-value on a size-bounded re-solve).
func tryReplay(e *Engine, o *Obligation, model, dir string) *ReplayResult {
	return tryReplayMode(e, o, dir, false)
}

// tryReplayMode: with dropGoal the size-bounded re-solve only asks for an
// input that reaches the obligation's program point (the solver could not
// produce a counterexample itself); the concretisation search in the
// generated test then looks for a failing input near it.
func tryReplayMode(e *Engine, o *Obligation, dir string, dropGoal bool) *ReplayResult {
	x := o.X
	if x == nil || x.fi == nil || x.entry == nil {
		return nil
	}
	var res *ReplayResult
	func() {
		defer func() {
			if r := recover(); r != nil {
				res = &ReplayResult{Log: fmt.Sprintf("replay generation failed: %v", r)}
			}
		}()
		for _, bound := range []int{3, 8, 40} {
			r := replayWithBound(e, o, dir, bound, dropGoal)
			if r != nil {
				res = r
				if r.Failed || !strings.Contains(r.Log, "size-bounded re-solve") {
					return
				}
			}
		}
	}()
	return res
}

func replayWithBound(e *Engine, o *Obligation, dir string, bound int, dropGoal bool) *ReplayResult {
	x := o.X
	sig := x.fi.Obj.Type().(*types.Signature)
	pkg := x.fi.Pkg.Types
	rc := &replayCtx{x: x, o: o, byTerm: map[string]*probe{}, bound: bound, pkgName: pkg.Name(), imports: map[string]bool{"testing": true},
		helpers: map[string]string{}, regions: map[string]*regionInfo{}, unsI: map[int]bool{}}
	rc.qual = func(p *types.Package) string {
		if p == pkg {
			return ""
		}
		rc.imports[p.Path()] = true
		return p.Name()
	}
	type param struct {
		name string
		v    *types.Var
		val  Val
	}
	var params []param
	var cons []*Term
	add := func(v *types.Var) bool {
		if v == nil || v.Name() == "" || v.Name() == "_" {
			return true
		}
		val, ok := x.entryVals[v.Name()]
		if !ok {
			return false
		}
		if !rc.walkProbes(val.T, val.Ty, &cons, 0) {
			return false
		}
		params = append(params, param{v.Name(), v, val})
		return true
	}
	if sig.Recv() != nil && !add(sig.Recv()) {
		return &ReplayResult{Log: "replay not generated: receiver type outside the replayable subset"}
	}
	for i := 0; i < sig.Params().Len(); i++ {
		if !add(sig.Params().At(i)) {
			return &ReplayResult{Log: "replay not generated: parameter " + sig.Params().At(i).Name() + " has a type outside the replayable subset (interfaces, functions, maps, nested slices)"}
		}
	}
	// symbolic globals
	type glob struct {
		obj *types.Var
		t   *Term
		ty  *Ty
	}
	var globs []glob
	for obj, g0 := range x.global0 {
		v := obj.(*types.Var)
		if len(g0.Args) != 0 || !strings.HasPrefix(g0.Op, "glob_") {
			continue
		}
		ty := x.w.goTy(v.Type(), x.model.BV)
		if ty.K != TInt && ty.K != TFloat && ty.K != TBool {
			continue
		}
		rc.probe(g0)
		globs = append(globs, glob{v, g0, ty})
	}
	sort.Slice(globs, func(i, j int) bool { return globs[i].obj.Name() < globs[j].obj.Name() })
	// bound plain ints to keep allocations small
	for _, p := range params {
		if p.val.Ty.K == TInt {
			cons = append(cons, Le(p.val.T, IntLit(1<<20)), Ge(p.val.T, IntLit(-(1<<20))))
		}
	}

	// size-bounded re-solve with get-value
	script := o.Script(true)
	if dropGoal {
		if g := strings.LastIndex(script, "(assert (not "); g >= 0 {
			end := strings.Index(script[g:], "\n")
			script = script[:g] + script[g+end+1:]
		}
	}
	k := strings.LastIndex(script, "(check-sat)")
	var b strings.Builder
	b.WriteString("(set-option :pp.decimal true)\n(set-option :pp.decimal_precision 17)\n")
	b.WriteString(script[:k])
	// declarations for probe-only constants
	declared := map[string]bool{}
	var extra []*Term
	for _, p := range rc.probes {
		extra = append(extra, p.term)
	}
	for _, d := range x.sym.DeclsFor(append(extra, cons...), "") {
		name := strings.Fields(d)[1]
		if !strings.Contains(script, "(declare-const "+name+" ") && !strings.Contains(script, "(declare-fun "+name+" ") && !declared[name] {
			declared[name] = true
			b.WriteString(d + "\n")
		}
	}
	for _, c := range cons {
		b.WriteString("(assert " + c.String() + ")\n")
	}
	b.WriteString("(check-sat)\n(get-value (")
	for _, p := range rc.probes {
		b.WriteString(p.term.String() + " ")
	}
	b.WriteString("))\n")
	file := filepath.Join(dir, sanitize(o.Name)+fmt.Sprintf(".replay%d.smt2", bound))
	os.WriteFile(file, []byte(b.String()), 0o644)
	var out string
	status := ""
	for _, sp := range solvers[:2] {
		st, o2, _ := runSolver(sp, file, 10)
		if st == "sat" {
			out, status = o2, st
			break
		}
		status = st
	}
	if status != "sat" {
		return &ReplayResult{Log: fmt.Sprintf("size-bounded re-solve (sizes <= %d) answered %s: no small counterexample", bound, status)}
	}
	ex := parseSexps(out)
	if len(ex) < 2 || len(ex[1].list) != len(rc.probes) {
		return &ReplayResult{Log: "could not parse get-value output"}
	}
	for i, p := range rc.probes {
		pair := ex[1].list[i]
		if len(pair.list) == 2 {
			p.val = pair.list[1]
		}
	}

	// build the test
	var body strings.Builder
	var input []string
	var decls []string
	for _, p := range params {
		gv, ok := rc.goValue(p.val.T, p.val.Ty)
		if !ok {
			return &ReplayResult{Log: "replay not generated: could not build a Go value for parameter " + p.name + " from the model"}
		}
		decls = append(decls, fmt.Sprintf("\t%s := %s\n\t_ = %s\n", p.name, gv, p.name))
		input = append(input, p.name)
	}
	regs, _ := rc.regionDecls()
	body.WriteString(regs)
	for _, d := range decls {
		body.WriteString(d)
	}
	for _, g := range globs {
		gv, ok := rc.goValue(g.t, g.ty)
		if !ok {
			continue
		}
		fmt.Fprintf(&body, "\tdefer func(v %s) { %s = v }(%s)\n\t%s = %s\n", rc.goType(g.ty), g.obj.Name(), g.obj.Name(), g.obj.Name(), gv)
		input = append(input, g.obj.Name())
	}
	// describe the input
	var fmts, vals []string
	for _, n := range input {
		fmts = append(fmts, n+" = %+v")
		vals = append(vals, "gowpShow("+n+")")
	}
	fmt.Fprintf(&body, "\tdesc = fmt.Sprintf(%q, %s)\n", strings.Join(fmts, "; "), strings.Join(vals, ", "))
	if len(vals) == 0 {
		body.Reset()
		body.WriteString(regs)
		body.WriteString("\tdesc = \"(no inputs)\"\n")
	}
	gc := &goCompiler{rc: rc, x: x, sig: sig, pkg: pkg}
	for _, p := range params {
		body.WriteString(gc.snapshot(p.name, p.val.Ty))
	}
	var args []string
	for i := 0; i < sig.Params().Len(); i++ {
		n := sig.Params().At(i).Name()
		if n == "" || n == "_" {
			args = append(args, "nil")
			continue
		}
		if sig.Variadic() && i == sig.Params().Len()-1 {
			n += "..."
		}
		args = append(args, n)
	}
	callee := x.fi.Obj.Name()
	if sig.Recv() != nil {
		callee = sig.Recv().Name() + "." + callee
	}
	var rnames []string
	for i := 0; i < sig.Results().Len(); i++ {
		rnames = append(rnames, fmt.Sprintf("gowpR%d", i))
	}
	for i, rn := range rnames {
		fmt.Fprintf(&body, "\tvar %s %s\n\t_ = %s\n", rn, types.TypeString(sig.Results().At(i).Type(), rc.qual), rn)
	}
	gc.results = rnames
	fr := &frame{sig: sig}
	for i := 0; i < sig.Results().Len(); i++ {
		rv := sig.Results().At(i)
		if rv.Name() == "" || rv.Name() == "_" {
			rv = types.NewVar(0, nil, fmt.Sprintf("result%d", i), rv.Type())
		}
		fr.resVars = append(fr.resVars, rv)
	}
	gc.resNames = resultNames(x.fc, fr)
	gc.lets = x.fc.Lets
	// preconditions (on the entry values, before the call)
	for _, r := range x.fc.Requires {
		code, k, err := gc.compileTop(r.E, false)
		if err != nil || k != kBool {
			continue // cannot evaluate this precondition concretely: not checked
		}
		fmt.Fprintf(&body, "\tif !(%s) {\n\t\treturn \"\", desc, true\n\t}\n", code)
	}
	body.WriteString("\tpanicked := func() (p interface{}) {\n\t\tdefer func() { p = recover() }()\n\t\t")
	if len(rnames) > 0 {
		body.WriteString(strings.Join(rnames, ", ") + " = ")
	}
	body.WriteString(callee + "(" + strings.Join(args, ", ") + ")\n\t\treturn nil\n\t}()\n")
	body.WriteString("\tif panicked != nil {\n\t\treturn fmt.Sprintf(\"the real function panicked: %v\", panicked), desc, false\n\t}\n")
	nchecks := 0
	for i, en := range x.fc.Ensures {
		code, k, err := gc.compileTop(en.E, false)
		if err != nil || k != kBool {
			fmt.Fprintf(&body, "\t// clause not compiled to Go: %s (%v)\n", en.Src, err)
			continue
		}
		label := en.Label
		if label == "" {
			label = fmt.Sprintf("e%d", i+1)
		}
		nchecks++
		fmt.Fprintf(&body, "\tif !(%s) {\n\t\treturn fmt.Sprintf(\"ensures [%s] violated on the real code: %%s\", %s), desc, false\n\t}\n", code, label, strconv.Quote(en.Src))
	}
	if x.fc.HasAssigns {
		body.WriteString(gc.frameCheck(nil, x.fc.Assigns))
	}
	body.WriteString("\treturn \"\", desc, false\n")

	var src strings.Builder
	fmt.Fprintf(&src, "// Code generated by gowp: replay of obligation %s. DO NOT EDIT.\npackage %s\n\nimport (\n", o.Name, rc.pkgName)
	for _, im := range []string{"reflect", "math", "fmt", "math/rand", "time"} {
		rc.imports[im] = true
	}
	for _, im := range sortedKeys(rc.imports) {
		fmt.Fprintf(&src, "\t%q\n", im)
	}
	src.WriteString(")\n\nvar _ = math.NaN\nvar _ = reflect.DeepEqual\n\n")
	src.WriteString(replayHelpers)
	for _, h := range sortedKeys(gc.rc.helpers) {
		src.WriteString(gc.rc.helpers[h] + "\n")
	}
	src.WriteString("// gowpTry builds the input (model values unless overridden), runs the real\n// function and evaluates the contract. It returns a failure message (or \"\"),\n// a description of the input, and whether the input was skipped because it\n// does not satisfy the precondition concretely.\n")
	src.WriteString("func gowpTry() (fail string, desc string, skipped bool) {\n")
	src.WriteString("\tdefer func() {\n\t\tif r := recover(); r != nil {\n\t\t\tfail, skipped = \"\", true // building or checking the input itself panicked\n\t\t}\n\t}()\n")
	src.WriteString(body.String())
	src.WriteString("}\n\n")
	var uns []string
	for k := range rc.unsI {
		uns = append(uns, fmt.Sprintf("%d: true", k))
	}
	sort.Strings(uns)
	fmt.Fprintf(&src, "const gowpNF, gowpNI = %d, %d\n\nvar gowpUnsigned = map[int]bool{%s}\n\n", rc.nF, rc.nI, strings.Join(uns, ", "))
	src.WriteString(replayDriver)
	testFile := filepath.Join(dir, sanitize(o.Name)+"_replay_test.go")
	os.WriteFile(testFile, []byte(src.String()), 0o644)
	// run with overlay
	pkgDir := filepath.Dir(e.fset.Position(x.fi.Decl.Pos()).Filename)
	target := filepath.Join(pkgDir, "zz_gowp_replay_test.go")
	ov := fmt.Sprintf("{\"Replace\": {%q: %q}}", target, testFile)
	ovFile := filepath.Join(dir, sanitize(o.Name)+".overlay.json")
	os.WriteFile(ovFile, []byte(ov), 0o644)
	outp, _ := runCmd(pkgDir, 90*time.Second, []string{"GOFLAGS=-mod=mod", "GOPROXY=off", "GOSUMDB=off", "GOTOOLCHAIN=local"},
		"go", "test", "-overlay", ovFile, "-vet=off", "-count=1", "-timeout", "60s", "-run", "^TestGowpReplay$", "-v", ".")
	r := &ReplayResult{TestFile: testFile}
	r.Log = fmt.Sprintf("replay test %s (%d contract clauses evaluated in Go)\nre-run: cd %s && go test -overlay %s -vet=off -count=1 -run '^TestGowpReplay$' -v .\n%s", testFile, nchecks, pkgDir, ovFile, truncate(outp, 3000))
	if strings.Contains(outp, "GOWP-REPLAY-FAIL") {
		r.Failed = true
	}
	return r
}

func params2names(ps interface{}) []string { return nil }

const replayHelpers = `
var gowpFO = map[int]float64{}
var gowpIO = map[int]int64{}

func gowpF(k int, v float64) float64 {
	if o, ok := gowpFO[k]; ok {
		return o
	}
	return v
}

func gowpI(k int, v int64) int64 {
	if o, ok := gowpIO[k]; ok {
		return o
	}
	return v
}

func gowpShow(v interface{}) interface{} {
	rv := reflect.ValueOf(v)
	if rv.Kind() == reflect.Ptr && !rv.IsNil() {
		return fmt.Sprintf("&%+v", rv.Elem().Interface())
	}
	return v
}

// gowpSeqEq: same length and equal elements (nil and empty are equal;
// float elements are compared up to rounding).
func gowpSeqEq(a, b interface{}) bool {
	va, vb := reflect.ValueOf(a), reflect.ValueOf(b)
	if va.Kind() != reflect.Slice || vb.Kind() != reflect.Slice || va.Len() != vb.Len() {
		return false
	}
	for i := 0; i < va.Len(); i++ {
		x, y := va.Index(i), vb.Index(i)
		if x.Kind() == reflect.Float64 && y.Kind() == reflect.Float64 {
			if !gowpApprox(x.Float(), y.Float()) {
				return false
			}
		} else if !reflect.DeepEqual(x.Interface(), y.Interface()) {
			return false
		}
	}
	return true
}

func gowpApprox(a, b float64) bool {
	if math.IsNaN(a) || math.IsNaN(b) {
		return math.IsNaN(a) && math.IsNaN(b)
	}
	if a == b {
		return true
	}
	d := math.Abs(a - b)
	m := math.Max(math.Abs(a), math.Abs(b))
	return d <= 1e-9*m || d <= 1e-12
}
`

const replayDriver = `
func TestGowpReplay(t *testing.T) {
	fail, desc, skipped := gowpTry()
	t.Logf("model input: %s", desc)
	if fail != "" {
		t.Fatalf("GOWP-REPLAY-FAIL: %s\\n  on input: %s", fail, desc)
	}
	if skipped {
		t.Logf("the model input does not satisfy the precondition when evaluated concretely")
	}
	// concretisation search near the model (deterministic, time-boxed)
	rng := rand.New(rand.NewSource(1))
	fpool := []float64{0, 0.5, -0.5, 1, -1, 2, -2, 0.1, 0.25, 0.75, 0.9, 1.5, 3, 10, 100, 1e-3, -1e-3}
	start := time.Now()
	tried := 0
	for iter := 0; iter < 20000 && time.Since(start) < 2*time.Second; iter++ {
		gowpFO = map[int]float64{}
		gowpIO = map[int]int64{}
		n := 1 + rng.Intn(3)
		for j := 0; j < n; j++ {
			if gowpNF > 0 && (gowpNI == 0 || rng.Intn(2) == 0) {
				k := rng.Intn(gowpNF)
				switch rng.Intn(3) {
				case 0:
					gowpFO[k] = fpool[rng.Intn(len(fpool))]
				case 1:
					gowpFO[k] = (rng.Float64()*2 - 1) * 10
				default:
					gowpFO[k] = float64(rng.Intn(21) - 10)
				}
			} else if gowpNI > 0 {
				k := rng.Intn(gowpNI)
				v := int64(rng.Intn(9) - 2)
				if gowpUnsigned[k] && v < 0 {
					v = -v
				}
				gowpIO[k] = v
			}
		}
		fail, desc, skipped = gowpTry()
		if skipped {
			continue
		}
		tried++
		if fail != "" {
			t.Fatalf("GOWP-REPLAY-FAIL (input found by the concretisation search near the model, after %d candidates): %s\\n  on input: %s", tried, fail, desc)
		}
	}
	t.Logf("no failing input among the model input and %d candidates satisfying the precondition", tried)
}
`
