package main

type ReplayResult struct {
	Failed   bool
	Log      string
	TestFile string
}

// tryReplay builds a Go test from the solver model and runs it against the
// real code. (filled in later)
func tryReplay(e *Engine, o *Obligation, model, dir string) *ReplayResult { return nil }
