package main

import (
	"fmt"
	"go/ast"
	"go/token"
	"go/types"
	"path/filepath"
	"sort"
	"strings"

	"golang.org/x/tools/go/packages"
)

type Obligation struct {
	Name      string
	Func      string
	Kind      string // post pre safe inv-init inv-pres frame vacuity lemma
	Hyps      []*Term
	Goal      *Term
	X         *Exec
	Pos       string
	Src       string            // contract clause text, if any
	ExpectSat bool              // vacuity probes: must NOT be unsat
	Vars      map[string]string // readable names -> SMT constant names (for models)
	Orig      *Term             // the goal before skolemisation (for the syntactic-hypothesis shortcut)
}

type frame struct {
	key      string
	pkg      *packages.Package
	info     *types.Info
	fc       *FuncContract
	sig      *types.Signature
	resVars  []*types.Var // result variables (named or synthetic)
	top      bool
	rets     []*State
	loopOrd  int
	recvObj  types.Object
	funcLits int
	body     *ast.BlockStmt
	ghosts   map[string]Val // snapshots: ghost values captured at an anchor
}

type Exec struct {
	eng             *Engine
	w               *World
	key             string
	fi              *FuncInfo
	fc              *FuncContract
	model           *Model
	sym             *SymTab
	heap0           map[string]*Term
	heapSorts       map[string]Sort
	boxKinds        map[string]boxKind // typed box functions in use (goexpr.go)
	aliases         map[string]string  // renamed variables: contract name -> current name (symbols.go)
	aliasDone       bool
	retAlign        []int // current return ordinal -> ordinal in the symbol snapshot (0: new)
	retAlignDone    bool
	heapElemTy      map[string]*Ty     // element / pointee type of H_ and P_ heaps (for stored-value invariants)
	obls            []*Obligation
	entry           *State
	entryVals       map[string]Val // param name -> entry value
	heapified       map[types.Object]bool
	usedSpecs       map[string]bool
	heapTrace       map[string]bool
	specOrigArgs    []Val
	invFacts        map[*Term]bool // path-condition entries that are assumed loop invariants
	boundCtr        int
	trusted         map[string]bool
	ord             map[string]int
	frames          []*frame
	closures        map[int64]*closure
	closureID       int64
	global0         map[types.Object]*Term
	notes           []string
	pendingCaptured map[string]Val
	pendingCapObjs  map[string]*types.Var // captured variables the callee literal assigns (in/out)
	selfVar         *types.Var            // when verifying a literal: the variable it is bound to (recursion)
	capturedSet     map[string]*types.Var
	captured        []*types.Var // for function literals verified on their own: variables of the enclosing function
	fieldAsg        map[types.Object]map[int]bool
	scopes          []*frameScope
	retPos          []token.Pos
	depth           int
}

type closure struct {
	lit  *ast.FuncLit
	fr   *frame // defining frame (for info)
	name string
}

func (x *Exec) cur() *frame { return x.frames[len(x.frames)-1] }

func (x *Exec) info() *types.Info { return x.cur().info }

func (x *Exec) nextOrd(kind string) int {
	x.ord[kind]++
	return x.ord[kind]
}

func (x *Exec) oblige(st *State, kind, label string, goal *Term, pos token.Pos, src string) {
	if isLit(goal, "true") {
		// still record: trivially discharged obligations are counted
	}
	if parts := splitGoal(goal); len(parts) > 1 && kind != "safe" {
		for i, p := range parts {
			x.oblige(st, kind, fmt.Sprintf("%s.%d", label, i+1), p, pos, src)
		}
		return
	}
	name := x.key + "#" + kind
	if label != "" {
		name += ":" + label
	}
	sg := x.skolemGoal(goal)
	if sg != goal && kind != "safe" {
		// a quantified conjunction: once the variables are constants the
		// conjuncts are separate (smaller) obligations
		if parts := splitGoal(sg); len(parts) > 1 {
			for i, p := range parts {
				x.oblige(st, kind, fmt.Sprintf("%s.q%d", label, i+1), p, pos, src)
			}
			return
		}
	}
	o := &Obligation{Name: name, Func: x.key, Kind: kind, Hyps: append([]*Term(nil), st.pc...), Goal: sg, X: x, Src: src, Orig: goal}
	if pos.IsValid() {
		o.Pos = x.eng.pos(pos)
	}
	x.obls = append(x.obls, o)
}

// splitGoal breaks a goal into independently provable parts:
// A && B  ->  A, B ;  P => (A && B)  ->  P => A, P => B.
func splitGoal(g *Term) []*Term {
	switch {
	case g.Op == "and":
		var out []*Term
		for _, a := range g.Args {
			out = append(out, splitGoal(a)...)
		}
		return out
	case g.Op == "=>" && len(g.Args) == 2:
		cs := splitGoal(g.Args[1])
		if len(cs) <= 1 {
			return []*Term{g}
		}
		var out []*Term
		for _, c := range cs {
			out = append(out, Implies(g.Args[0], c))
		}
		return out
	}
	return []*Term{g}
}

type engineError struct{ msg string }

func (x *Exec) unsupported(n ast.Node, f string, a ...any) {
	pos := ""
	if n != nil {
		pos = x.eng.pos(n.Pos()) + ": "
	}
	panic(engineError{pos + fmt.Sprintf(f, a...)})
}

// verifyFunc generates all obligations for one function under contract.
func (e *Engine) verifyFunc(key string) (x *Exec, err error) {
	fc := e.contracts[key]
	fi := e.funcs[key]
	if fc == nil {
		return nil, fmt.Errorf("no contract for %s", key)
	}
	if k := strings.Index(key, "@"); k > 0 && fi == nil && !fc.Assume {
		// a VERIFIED variant K@model: the body of K against a second
		// contract, in another arithmetic model
		fi = e.funcs[key[:k]]
		if fi == nil {
			return nil, fmt.Errorf("contract anchor missing: no function %s in the tree", key[:k])
		}
	}
	var captured []*types.Var
	var selfVar *types.Var
	if k := strings.Index(key, "#lit"); k >= 0 && fi == nil {
		// a function literal inside key[:k], numbered in source order
		parent := e.funcs[key[:k]]
		if parent == nil {
			return nil, fmt.Errorf("contract anchor missing: no function %s in the tree", key[:k])
		}
		var n int
		fmt.Sscanf(key[k+4:], "%d", &n)
		var lit *ast.FuncLit
		cnt := 0
		ast.Inspect(parent.Decl.Body, func(nd ast.Node) bool {
			if l, ok := nd.(*ast.FuncLit); ok {
				cnt++
				if cnt == n {
					lit = l
				}
			}
			return true
		})
		if lit == nil {
			return nil, fmt.Errorf("contract anchor missing: %s has no function literal number %d", key[:k], n)
		}
		sig, _ := parent.Pkg.TypesInfo.Types[lit].Type.(*types.Signature)
		if sig == nil {
			return nil, fmt.Errorf("no signature for %s", key)
		}
		obj := types.NewFunc(lit.Pos(), parent.Pkg.Types, parent.Obj.Name()+fmt.Sprintf("_lit%d", n), sig)
		fi = &FuncInfo{Key: key, Pkg: parent.Pkg, Obj: obj,
			Decl: &ast.FuncDecl{Name: ast.NewIdent(obj.Name()), Type: lit.Type, Body: lit.Body}}
		// the variable this literal is assigned to (v = func...), for recursion
		ast.Inspect(parent.Decl.Body, func(nd ast.Node) bool {
			if as, ok := nd.(*ast.AssignStmt); ok && len(as.Lhs) == len(as.Rhs) {
				for i, r := range as.Rhs {
					if r == ast.Expr(lit) {
						if id, ok := as.Lhs[i].(*ast.Ident); ok {
							if v, ok := parent.Pkg.TypesInfo.ObjectOf(id).(*types.Var); ok {
								selfVar = v
							}
						}
					}
				}
			}
			return true
		})
		// captured variables: declared in the parent, outside the literal
		seen := map[types.Object]bool{}
		ast.Inspect(lit.Body, func(nd ast.Node) bool {
			if id, ok := nd.(*ast.Ident); ok {
				if v, ok := parent.Pkg.TypesInfo.Uses[id].(*types.Var); ok && !v.IsField() && !seen[v] {
					if v.Pkg() != nil && v.Parent() != v.Pkg().Scope() && (v.Pos() < lit.Pos() || v.Pos() > lit.End()) {
						seen[v] = true
						captured = append(captured, v)
					}
				}
			}
			return true
		})
	}
	if fi == nil {
		return nil, fmt.Errorf("contract anchor missing: no function %s in the tree", key)
	}
	x = &Exec{eng: e, w: e.w, key: key, fi: fi, fc: fc, model: modelByName(fc.Model), sym: NewSymTab(),
		heap0: map[string]*Term{}, heapSorts: map[string]Sort{}, entryVals: map[string]Val{},
		heapified: map[types.Object]bool{}, usedSpecs: map[string]bool{}, trusted: map[string]bool{},
		ord: map[string]int{}, closures: map[int64]*closure{}, global0: map[types.Object]*Term{}}
	x.captured = captured
	x.capturedSet = map[string]*types.Var{}
	for _, v := range captured {
		x.capturedSet[v.Name()] = v
	}
	x.selfVar = selfVar
	defer func() {
		if r := recover(); r != nil {
			switch r := r.(type) {
			case engineError:
				err = fmt.Errorf("%s: %s", key, r.msg)
			case string:
				err = fmt.Errorf("%s: %s", key, r)
			default:
				panic(r)
			}
		}
	}()
	x.checkRetAnchors()
	x.run()
	return x, nil
}

// checkRetAnchors: every `check @retN` / `witness … @retN` of the contract
// must denote a return site of the function as it is now (after alignment with
// the symbol snapshot); a clause whose site is gone would otherwise be dropped
// silently.
func (x *Exec) checkRetAnchors() {
	if x.fc == nil || strings.Contains(x.key, "#") || x.fi == nil || x.fi.Decl == nil || x.fi.Decl.Body == nil {
		return
	}
	var sites []token.Pos
	ast.Inspect(x.fi.Decl.Body, func(n ast.Node) bool {
		switch r := n.(type) {
		case *ast.FuncLit:
			return false
		case *ast.ReturnStmt:
			sites = append(sites, r.Pos())
		}
		return true
	})
	sites = append(sites, x.fi.Decl.Body.Rbrace)
	have := map[string]bool{}
	for _, p := range sites {
		have[fmt.Sprintf("ret%d", x.retOrdinal(p))] = true
	}
	need := func(anchor, what string) {
		if strings.HasPrefix(anchor, "ret") && !have[anchor] {
			panic(engineError{fmt.Sprintf("anchor-mismatch: %s is anchored at @%s, but the function has no such return site any more", what, anchor)})
		}
	}
	for _, c := range x.fc.Checks {
		need(c.Anchor, "check ["+c.Cl.Label+"]")
	}
	for _, w := range x.fc.Witnesses {
		need(w.Anchor, "witness "+witnessName(w.Name))
	}
}

func (x *Exec) run() {
	fi := x.fi
	sig := fi.Obj.Type().(*types.Signature)
	fr := &frame{key: x.key, pkg: fi.Pkg, info: fi.Pkg.TypesInfo, fc: x.fc, sig: sig, top: true, body: fi.Decl.Body}
	x.frames = []*frame{fr}
	st := newState()
	st.setAllocBase(x.sym.Const("alloc@0", SInt))
	st.assume(Ge(st.alloc, IntLit(1)))
	x.findHeapified(fi.Decl.Body, fr.info)

	bind := func(v *types.Var) {
		if v == nil {
			return
		}
		ty := x.w.goTy(v.Type(), x.model.BV)
		name := v.Name()
		if name == "" || name == "_" {
			return
		}
		t := x.sym.Const("in_"+sanitize(name), x.w.sortOf(ty, x.model))
		st.assume(x.typeInv(t, ty, st.alloc))
		x.assumeDeepInv(st, t, ty)
		if ty.K == TFloat && x.model.Float == SReal {
			st.assume(Not(Eq(t, mk("rnan", SReal))))
			x.sym.Const("rnan", SReal)
		}
		x.entryVals[name] = Val{T: t, Ty: ty}
		st.vars[v] = t
	}
	if sig.Recv() != nil {
		bind(sig.Recv())
		fr.recvObj = sig.Recv()
	}
	for i := 0; i < sig.Params().Len(); i++ {
		bind(sig.Params().At(i))
	}
	for _, v := range x.captured {
		bind(v)
	}
	// heapify address-taken parameters
	for obj := range st.vars {
		if x.heapified[obj] {
			v := obj.(*types.Var)
			ty := x.w.goTy(v.Type(), x.model.BV)
			addr := st.bump()
			hn, h := x.ptrHeapOf(st, ty)
			st.heaps[hn] = Store(h, addr, st.vars[obj])
			st.vars[obj] = addr
		}
	}
	// result variables
	x.setupResults(fr, st)
	x.entry = st.clone()

	// requires
	env := x.entryEnv(st, st)
	for _, ld := range x.fc.Lets {
		v := env.eval(ld.E)
		x.entryVals[ld.Name] = v
	}
	for _, r := range x.fc.Requires {
		st.assume(env.evalBool(r.E))
	}
	for _, ax := range x.eng.axioms {
		if ax.Pkg == x.fi.Pkg.Types.Name() {
			st.assume(env.evalBool(ax.Cl.E))
			x.noteTrusted("axiom (package " + ax.Pkg + ", trusted): " + ax.Cl.Src)
		}
	}
	x.entry.pc = append([]*Term(nil), st.pc...)
	if x.fc.HasAssigns {
		fenv := x.entryEnv(x.entry, x.entry)
		x.scopes = append(x.scopes, &frameScope{label: "", targets: x.assignTargets(fenv, x.fc.Assigns), src: "assigns " + assignsText(x.fc)})
	}
	// vacuity probe
	x.obls = append(x.obls, &Obligation{Name: x.key + "#vacuity", Func: x.key, Kind: "vacuity",
		Hyps: append([]*Term(nil), st.pc...), Goal: tFalse, X: x, ExpectSat: true})

	out := x.block(fi.Decl.Body.List, st)
	if out.normal != nil {
		if sig.Results().Len() > 0 {
			// falling off the end of a function with results cannot happen
			// (the compiler requires a terminating statement)
		} else {
			x.doReturn(out.normal, nil, fi.Decl.Body.Rbrace)
		}
	}
	if len(out.breaks) > 0 || len(out.continues) > 0 || len(out.gotos) > 0 {
		x.unsupported(fi.Decl, "break/continue/goto escaped function body (only forward gotos within a function are translated)")
	}
}

func (x *Exec) setupResults(fr *frame, st *State) {
	sig := fr.sig
	for i := 0; i < sig.Results().Len(); i++ {
		rv := sig.Results().At(i)
		if rv.Name() == "" || rv.Name() == "_" {
			rv = types.NewVar(token.NoPos, nil, fmt.Sprintf("result%d", i), rv.Type())
		}
		fr.resVars = append(fr.resVars, rv)
		ty := x.w.goTy(rv.Type(), x.model.BV)
		st.vars[rv] = x.zero(ty)
	}
}

// entryEnv: contract environment whose names are the entry values of the
// parameters of the function under verification.
func (x *Exec) entryEnv(cur, old *State) *CEnv {
	look := func(name string) (Val, bool) {
		v, ok := x.entryVals[name]
		return v, ok
	}
	return &CEnv{x: x, st: cur, old: old, lookup: look, pkg: x.fi.Pkg.Types, oldAlloc: x.entry0Alloc()}
}

func (x *Exec) entry0Alloc() *Term { return mk("alloc@0", SInt) }

// resultNames returns the contract-visible names of the results.
func resultNames(fc *FuncContract, fr *frame) []string {
	n := len(fr.resVars)
	names := make([]string, n)
	for i, rv := range fr.resVars {
		names[i] = rv.Name()
	}
	if fc != nil && len(fc.Results) == n {
		copy(names, fc.Results)
	}
	return names
}

// doReturn handles a return statement in the current frame.
func (x *Exec) doReturn(st *State, vals []Val, pos token.Pos) {
	fr := x.cur()
	if vals != nil {
		for i, rv := range fr.resVars {
			ty := x.w.goTy(rv.Type(), x.model.BV)
			if ty.K == TOpaque && vals[i].Ty.K != TOpaque {
				vals[i] = x.toInterface(vals[i], ty, nil)
			}
			st.vars[rv] = x.coerceTo(vals[i], ty)
		}
	}
	if !fr.top {
		fr.rets = append(fr.rets, st)
		return
	}
	// top-level: postconditions and frame
	names := resultNames(x.fc, fr)
	look := func(name string) (Val, bool) {
		for i, n := range names {
			if n == name || (name == "result" && len(names) == 1) {
				rv := fr.resVars[i]
				return Val{T: st.vars[rv], Ty: x.w.goTy(rv.Type(), x.model.BV)}, true
			}
		}
		if cv, isCap := x.capturedSet[name]; isCap {
			// captured variables denote their exit values in ensures (old(v): entry)
			if t, have := st.vars[cv]; have && !x.heapified[cv] {
				return Val{T: t, Ty: x.w.goTy(cv.Type(), x.model.BV)}, true
			}
		}
		v, ok := x.entryVals[name]
		return v, ok
	}
	env := &CEnv{x: x, st: st, old: x.entry, lookup: look, pkg: x.fi.Pkg.Types, oldAlloc: x.entry0Alloc(),
		oldLook: func(name string) (Val, bool) { v, ok := x.entryVals[name]; return v, ok }}
	rn := x.retOrdinal(pos)
	// witnesses: ghost results defined at particular returns
	wit := map[string]Val{}
	for _, w := range x.fc.Witnesses {
		wn := witnessName(w.Name)
		if _, done := wit[wn]; done && w.Anchor != fmt.Sprintf("ret%d", rn) {
			continue
		}
		if w.Anchor == fmt.Sprintf("ret%d", rn) {
			wenv := x.invEnv(st, pos, nil)
			wit[wn] = wenv.eval(w.E)
		} else if _, done := wit[wn]; !done {
			wit[wn] = x.freshWitness(w)
		}
	}
	baseLook := look
	look = func(name string) (Val, bool) {
		if v, ok := wit[name]; ok {
			return v, true
		}
		return baseLook(name)
	}
	env.lookup = look
	for i, ck := range x.fc.Checks {
		if ck.Anchor != fmt.Sprintf("ret%d", rn) {
			continue
		}
		cenv := x.invEnv(st, pos, nil)
		inner := cenv.lookup
		cenv.lookup = func(name string) (Val, bool) {
			if v, ok := look(name); ok {
				if _, isParam := x.paramObj(name); !isParam {
					return v, true
				}
			}
			return inner(name)
		}
		label := ck.Cl.Label
		if label == "" {
			label = fmt.Sprintf("c%d", i+1)
		}
		ct := cenv.evalBool(ck.Cl.E)
		ost := st
		cgoal := ct
		if len(ck.By) > 0 {
			// explicit lemma applications: hypotheses of this check only
			ost = st.clone()
			benv, g2 := x.openForall(cenv, ck.Cl.E)
			if g2 != nil {
				cgoal = g2
			}
			for _, call := range ck.By {
				ost.assume(x.lemmaInstance(benv, call))
			}
		}
		x.oblige(ost, "check", fmt.Sprintf("%s@ret%d", label, rn), cgoal, pos, ck.Cl.Src)
		// asserted, hence available to the later checks and to the
		// postconditions at this return
		st.assume(ct)
	}
	for i, en := range x.fc.Ensures {
		label := en.Label
		if label == "" {
			label = fmt.Sprintf("e%d", i+1)
		}
		if en.Assumed {
			x.noteTrusted(fmt.Sprintf("ASSUMED postcondition of %s, exported to callers without proof: [%s] %s", x.key, label, en.Src))
			continue
		}
		x.oblige(st, "post", fmt.Sprintf("%s@ret%d", label, rn), env.evalBool(en.E), pos, en.Src)
	}
	if x.fc.HasAssigns {
		x.frameObligation(st, fmt.Sprintf("ret%d", rn), pos)
	}
}

// cellsEqual: forall r. cond(r) => h1[r] == h0[r], stated pointwise for
// element heaps (so that no array extensionality is needed).
func (x *Exec) cellsEqual(hn string, h1, h0 *Term, k BoundVar, kt, cond *Term) *Term {
	if strings.HasPrefix(hn, "H_") {
		j := BoundVar{Name: x.freshBound("j"), Sort: SInt}
		jt := mk(j.Name, SInt)
		return Forall([]BoundVar{k, j}, Implies(cond, Eq(Select(Select(h1, kt), jt), Select(Select(h0, kt), jt))))
	}
	return Forall([]BoundVar{k}, Implies(cond, Eq(Select(h1, kt), Select(h0, kt))))
}

// freshWitness: an unconstrained witness value (int by default; a witness
// declared as  name:float  is a float of the function's model).
// witnessName strips the kind suffix of a witness declaration
// (name:float - a float64; name:ints - a sequence of ints).
func witnessName(n string) string {
	if k := strings.Index(n, ":"); k >= 0 {
		return n[:k]
	}
	return n
}

func (x *Exec) freshWitness(w WitnessDef) Val {
	if strings.HasSuffix(w.Name, ":ints") {
		n := sanitize(witnessName(w.Name))
		ln := x.sym.Fresh("witlen_"+n, SInt)
		return Val{T: x.sym.Fresh("wit_"+n, ArrSort(SInt, SInt)), Ty: &Ty{K: TSlice, Elem: tyInt},
			Seq: &SeqView{Off: IntLit(0), Len: ln, Elem: tyInt}}
	}
	if strings.HasSuffix(w.Name, ":float") {
		return Val{T: x.sym.Fresh("wit_"+sanitize(w.Name), x.model.Float), Ty: tyFloat}
	}
	if k := strings.Index(w.Name, ":"); k >= 0 {
		// name:pkg.Type - a value of a named (interface or other handle) type
		pe := &CEnv{x: x, pkg: x.fi.Pkg.Types}
		ty := pe.cty(&CType{Kind: "named", Name: w.Name[k+1:]})
		t := x.sym.Fresh("wit_"+sanitize(w.Name[:k]), x.w.sortOf(ty, x.model))
		return Val{T: t, Ty: ty}
	}
	return Val{T: x.sym.Fresh("wit_"+w.Name, SInt), Ty: tyInt}
}

// retOrdinal: ordinal of the return statement at pos in source order
// (the implicit return at the closing brace is the last one).
func (x *Exec) retOrdinal(pos token.Pos) int {
	if x.retPos == nil {
		ast.Inspect(x.fi.Decl.Body, func(n ast.Node) bool {
			switch r := n.(type) {
			case *ast.FuncLit:
				return false
			case *ast.ReturnStmt:
				x.retPos = append(x.retPos, r.Pos())
			}
			return true
		})
		x.retPos = append(x.retPos, x.fi.Decl.Body.Rbrace)
	}
	for i, p := range x.retPos {
		if p == pos {
			// return sites keep the ordinal they had when the contracts were
			// written (symbols.go): a return added in front of anchored ones
			// does not shift `@retN`; the new site is numbered 900+
			if !x.retAlignDone {
				x.retAlignDone = true
				if !strings.Contains(x.key, "#") {
					x.retAlign = retAlignment(x.fi)
					if x.retAlign != nil {
						x.notes = append(x.notes, x.key+": return sites aligned with the symbol snapshot (returns were added, removed or changed)")
					}
				}
			}
			if x.retAlign != nil && i+1 < len(x.retAlign) {
				if o := x.retAlign[i+1]; o > 0 {
					return o
				}
				return 900 + i + 1
			}
			return i + 1
		}
	}
	return x.nextOrd("ret") + 1000
}

// frameObligation: every pre-existing location outside the assigns set is
// unchanged, and no symbolic global is written.
func (x *Exec) frameObligation(st *State, label string, pos token.Pos) {
	// heap cells are checked store by store (recordWrite); what remains at
	// a return is that no symbolic package-level variable was written.
	env := x.entryEnv(x.entry, x.entry)
	allowed := x.assignTargets(env, x.fc.Assigns)
	var goals []*Term
	for obj, g0 := range x.global0 {
		if g1, ok := st.globals[obj]; ok && g1 != g0 {
			permitted := false
			for _, a := range allowed {
				if a.global == obj {
					permitted = true
				}
			}
			if !permitted {
				goals = append(goals, Eq(g1, g0))
			}
		}
	}
	x.oblige(st, "frame", "globals@"+label, And(goals...), pos, "assigns "+assignsText(x.fc))
}

type frameScope struct {
	label     string
	targets   []assignTarget
	protected []assignTarget
	src       string
}

// recordWrite: a store to cell key of heap hn. For every active frame scope
// (the function's assigns clause, enclosing loops with a modifies clause)
// the cell must have been allocated by this function, or be listed.
func (x *Exec) recordWrite(st *State, hn string, key *Term, newCell, oldCell *Term, cellTy *Ty, n ast.Node) {
	if len(x.scopes) == 0 {
		return
	}
	_, _, exactKey := st.exactAlloc(key)
	pos := token.NoPos
	if n != nil {
		pos = n.Pos()
	}
	for _, sc := range x.scopes {
		if exactKey {
			// allocated by this function on this path: only protected cells matter
			relevant := false
			for _, t := range sc.protected {
				if t.heap == hn && !st.distinct(key, t.key) {
					relevant = true
				}
			}
			if !relevant {
				continue
			}
		}
		alts := []*Term{Ge(key, x.entry0Alloc())}
		if strings.HasPrefix(hn, "H_") {
			alts = append(alts, Eq(key, IntLit(0))) // region 0 is the nil slice: it has no cells
		}
		for _, t := range sc.targets {
			if t.heap != hn || t.global != nil {
				continue
			}
			if t.field < 0 {
				alts = append(alts, Eq(key, t.key))
				continue
			}
			if newCell != nil && oldCell != nil && cellTy != nil {
				same := []*Term{Eq(key, t.key)}
				for j := range cellTy.Struct.Fields {
					if !t.fieldSet[j] {
						same = append(same, Eq(x.structGet(newCell, cellTy, j), x.structGet(oldCell, cellTy, j)))
					}
				}
				alts = append(alts, And(same...))
			}
		}
		goal := Or(alts...)
		if isLit(goal, "true") && len(sc.protected) == 0 {
			continue
		}
		for _, t := range sc.protected {
			if t.heap == hn {
				goal = And(goal, Not(Eq(key, t.key)))
			}
		}
		lab := fmt.Sprintf("%sw%d", sc.label, x.nextOrd("frame:"+sc.label))
		x.oblige(st, "frame", lab, goal, pos, sc.src)
		// asserted, hence assumed from here on: in particular the store
		// did not touch a cell the enclosing loop promises to preserve
		st.assume(goal)
	}
}

// pushLoopScope activates a loop's modifies clause for the stores in its body.
func (x *Exec) pushLoopScope(lc *LoopContract, ord int, pre *State, pos token.Pos) func() {
	if !lc.HasMod {
		return func() {}
	}
	env := x.invEnv(pre, pos, nil)
	sc := &frameScope{label: fmt.Sprintf("loop%d:", ord), targets: x.assignTargets(env, lc.Modifies), protected: x.assignTargets(env, lc.Preserves), src: "loop modifies / preserves"}
	x.scopes = append(x.scopes, sc)
	return func() { x.scopes = x.scopes[:len(x.scopes)-1] }
}

func assignsText(fc *FuncContract) string {
	if len(fc.Assigns) == 0 {
		return "nothing"
	}
	var s []string
	for _, a := range fc.Assigns {
		s = append(s, exprSrcDeep(a))
	}
	return strings.Join(s, ", ")
}

func exprSrcDeep(e *CExpr) string {
	switch e.Kind {
	case "id":
		return e.Name
	case "star":
		return "*" + exprSrcDeep(e.Args[0])
	case "field":
		return exprSrcDeep(e.Args[0]) + "." + e.Name
	case "allelems":
		return exprSrcDeep(e.Args[0]) + "[*]"
	case "index":
		return exprSrcDeep(e.Args[0]) + "[" + exprSrcDeep(e.Args[1]) + "]"
	case "int":
		return e.Name
	}
	return e.Kind
}

type assignTarget struct {
	heap     string
	key      *Term
	field    int // -1: whole cell
	fieldSet map[int]bool
	ty       *Ty
	global   types.Object
	lo, hi   *Term // x[*]: the window of absolute cell indices of x inside its region
}

// assignTargets resolves assigns expressions (evaluated in env's state).
func (x *Exec) assignTargets(env *CEnv, as []*CExpr) []assignTarget {
	var out []assignTarget
	for _, a := range as {
		switch a.Kind {
		case "star":
			p := env.eval(a.Args[0])
			if p.Ty.K != TPtr {
				env.errf(a, "assigns *p: p must be a pointer")
			}
			hn, _ := x.ptrHeapOf(env.state(), p.Ty.Elem)
			out = append(out, assignTarget{heap: hn, key: p.T, field: -1})
		case "allelems":
			s := env.eval(a.Args[0])
			if s.Ty.K == TOpaque && s.Ty.Go != nil {
				if mt, isMap := s.Ty.Go.Underlying().(*types.Map); isMap {
					// a map: its values, key set and length
					vn, _, pn, _, _, _ := x.mapHeaps(env.state(), mt)
					ln, _ := x.mapLenHeap(env.state(), mt)
					for _, hn := range []string{vn, pn, ln} {
						out = append(out, assignTarget{heap: hn, key: s.T, field: -1})
					}
					continue
				}
			}
			if s.Ty.K != TSlice {
				env.errf(a, "assigns x[*]: x must be a slice or a map")
			}
			hn, _ := x.elemHeapOf(env.state(), s.Ty.Elem)
			out = append(out, assignTarget{heap: hn, key: slReg(s.T), field: -1, lo: slOff(s.T), hi: Add(slOff(s.T), slLen(s.T))})
		case "field":
			p := env.eval(a.Args[0])
			if p.Ty.K != TPtr || p.Ty.Elem.K != TStruct {
				env.errf(a, "assigns p.f: p must be a pointer to struct")
			}
			hn, _ := x.ptrHeapOf(env.state(), p.Ty.Elem)
			i, f := p.Ty.Elem.Struct.field(a.Name)
			if f == nil {
				env.errf(a, "no field %s", a.Name)
			}
			// merge with an existing field target on the same pointer
			merged := false
			for k := range out {
				if out[k].heap == hn && out[k].field >= 0 && out[k].key.String() == p.T.String() {
					out[k].fieldSet[i] = true
					merged = true
				}
			}
			if !merged {
				out = append(out, assignTarget{heap: hn, key: p.T, field: i, fieldSet: map[int]bool{i: true}, ty: p.Ty.Elem})
			}
		case "id":
			// global variable
			if o := env.pkg.Scope().Lookup(a.Name); o != nil {
				out = append(out, assignTarget{global: o, field: -1})
				continue
			}
			env.errf(a, "assigns: unknown target")
		default:
			env.errf(a, "assigns: unsupported target")
		}
	}
	return out
}

// findHeapified marks local variables whose address is taken.
func (x *Exec) findHeapified(body ast.Node, info *types.Info) {
	if body == nil {
		return
	}
	ast.Inspect(body, func(n ast.Node) bool {
		if u, ok := n.(*ast.UnaryExpr); ok && u.Op == token.AND {
			e := u.X
			for {
				if p, ok := e.(*ast.ParenExpr); ok {
					e = p.X
					continue
				}
				break
			}
			if id, ok := e.(*ast.Ident); ok {
				if o, ok := info.Uses[id].(*types.Var); ok && !o.IsField() {
					x.heapified[o] = true
				}
			}
		}
		return true
	})
}

// readGlobal reads a package-level variable.
func (x *Exec) readGlobal(st *State, o *types.Var) Val {
	ty := x.w.goTy(o.Type(), x.model.BV)
	if t, ok := st.globals[o]; ok {
		return Val{T: t, Ty: ty}
	}
	qual := o.Pkg().Name() + "." + o.Name()
	if !x.eng.assigned[o] && !x.eng.symbolic[qual] && ty.K == TOpaque {
		// never-assigned package variable of interface type (error values):
		// a distinct non-nil constant per variable
		id, ok := x.eng.strIDs["var:"+qual]
		if !ok {
			id = int64(len(x.eng.strIDs) + 700000)
			x.eng.strIDs["var:"+qual] = id
		}
		st.globals[o] = IntLit(id)
		x.global0[o] = st.globals[o]
		return Val{T: st.globals[o], Ty: ty}
	}
	if !x.eng.assigned[o] && !x.eng.symbolic[qual] {
		if init, ok := x.eng.varInit[o]; ok {
			// constant-fold the initializer in an empty state
			p := x.eng.varInitPkg[o]
			fr := &frame{key: "init:" + qual, pkg: p, info: p.TypesInfo, top: false}
			x.frames = append(x.frames, fr)
			tmp := newState()
			tmp.chain, tmp.allocOff, tmp.alloc = st.chain, st.allocOff, st.alloc
			func() {
				defer func() { x.frames = x.frames[:len(x.frames)-1] }()
				v := x.expr(init, tmp)
				st.globals[o] = x.coerceTo(v, ty)
			}()
			if len(tmp.heaps) > 0 && ty.K != TStruct {
				x.unsupported(init, "initializer of %s allocates", qual)
			}
			x.global0[o] = st.globals[o]
			x.noteTrusted("package variable " + qual + " is never assigned in the repository and keeps its initial value")
			return Val{T: st.globals[o], Ty: ty}
		}
	}
	g0, ok := x.global0[o]
	if !ok {
		g0 = x.sym.Const("glob_"+sanitize(qual), x.w.sortOf(ty, x.model))
		x.global0[o] = g0
		// type invariant holds for the entry value
		x.entry.assume(x.typeInv(g0, ty, x.entry0Alloc()))
		st.assume(x.typeInv(g0, ty, x.entry0Alloc()))
	}
	st.globals[o] = g0
	return Val{T: g0, Ty: ty}
}

func (x *Exec) noteTrusted(s string) { x.trusted[s] = true }

// panicAllowed: the function under verification declares `maypanic <reason>`
// and the explicit panic statement is in its own body (not in an inlined
// callee): the path ends without an obligation, and the allowance is listed.
func (x *Exec) panicAllowed(pos token.Pos) bool {
	fr := x.cur()
	if fr.fc == nil || fr.fc.MayPanic == "" || fr.fc != x.fc {
		return false
	}
	p := x.eng.fset.Position(pos)
	x.noteTrusted(fmt.Sprintf("ALLOWED panic in %s at %s:%d (its postconditions hold on normal return only; callers inherit the panic): %s", x.key, filepath.Base(p.Filename), p.Line, fr.fc.MayPanic))
	return true
}

// aliasOf: the current name of a variable the contract knows under an older name.
func (x *Exec) aliasOf(name string) (string, bool) {
	if !x.aliasDone {
		x.aliasDone = true
		x.aliases = renameAliases(x.fi)
		if len(x.aliases) > 0 {
			var ks []string
			for k, v := range x.aliases {
				ks = append(ks, k+" -> "+v)
			}
			sort.Strings(ks)
			x.notes = append(x.notes, x.key+": contract names read through the symbol snapshot (renamed variables): "+strings.Join(ks, ", "))
		}
	}
	a, ok := x.aliases[name]
	return a, ok
}

func (x *Exec) trustedList() []string {
	var out []string
	for k := range x.trusted {
		out = append(out, k)
	}
	sort.Strings(out)
	return out
}

// assumeDeepInv: type invariants of what a parameter points to at entry
// (pointee of a pointer, elements of a slice of slices), relative to the
// entry allocation counter.
func (x *Exec) assumeDeepInv(st *State, t *Term, ty *Ty) {
	switch ty.K {
	case TPtr:
		if ty.Elem.K == TStruct || ty.Elem.K == TSlice || (ty.Elem.K == TInt && ty.Elem.Unsigned) {
			_, h := x.ptrHeapOf(st, ty.Elem)
			v := Select(h, t)
			st.assume(Implies(Not(Eq(t, IntLit(0))), x.typeInv(v, ty.Elem, st.alloc)))
			if ty.Elem.K == TStruct {
				for i, f := range ty.Elem.Struct.Fields {
					if f.Ty.K == TSlice && (f.Ty.Elem.K == TSlice || f.Ty.Elem.K == TStruct) {
						x.assumeDeepInv(st, x.structGet(v, ty.Elem, i), f.Ty)
					}
				}
			}
		}
	case TSlice:
		if ty.Elem.K == TSlice || ty.Elem.K == TStruct || ty.Elem.K == TPtr {
			_, h := x.elemHeapOf(st, ty.Elem)
			k := BoundVar{Name: x.freshBound("k"), Sort: SInt}
			kt := mk(k.Name, SInt)
			ev := Select(Select(h, slReg(t)), kt)
			inv := x.typeInv(ev, ty.Elem, st.alloc)
			if !isLit(inv, "true") {
				st.assume(Forall([]BoundVar{k}, inv))
			}
		}
	case TStruct:
		for i, f := range ty.Struct.Fields {
			if f.Ty.K == TSlice || f.Ty.K == TPtr {
				x.assumeDeepInv(st, x.structGet(t, ty, i), f.Ty)
			}
		}
	}
}

// skolemGoal replaces universally quantified variables in positive
// positions of a goal (top level, consequents of implications, conjuncts)
// by fresh constants. Equivalent for validity; it makes applications of
// recursive spec functions to those variables ground, so that they are
// unfolded (the unfolding is syntactic and skips bound variables).
func (x *Exec) skolemGoal(g *Term) *Term {
	switch {
	case g.Op == "forall" && len(g.Bound) > 0:
		m := map[string]*Term{}
		for _, bv := range g.Bound {
			hint := bv.Name
			if k := strings.Index(hint, "?"); k >= 0 {
				hint = hint[:k]
			}
			m[bv.Name] = x.sym.Fresh("sk_"+hint, bv.Sort)
		}
		body := x.skolemGoal(substTerm(g.Args[0], m))
		// the quantifier's trigger terms, at the skolem constants, are put
		// into the goal's antecedent under a fresh uninterpreted predicate
		// (validity is unchanged): hypotheses with the same trigger can
		// then be instantiated even where a conjunct of the body does not
		// mention the trigger term itself
		var hints []*Term
		for _, p := range g.Pat {
			t := substTerm(p, m)
			fn := "hint_" + sortTag(t.Sort)
			x.sym.Func(fn, []Sort{t.Sort}, SBool)
			hints = append(hints, mk(fn, SBool, t))
		}
		if len(hints) > 0 {
			return mk("=>", SBool, And(hints...), body)
		}
		return body
	case g.Op == "=>" && len(g.Args) == 2:
		c := x.skolemGoal(g.Args[1])
		if c == g.Args[1] {
			return g
		}
		return mk("=>", SBool, g.Args[0], c)
	case g.Op == "and":
		changed := false
		args := make([]*Term, len(g.Args))
		for i, a := range g.Args {
			args[i] = x.skolemGoal(a)
			if args[i] != a {
				changed = true
			}
		}
		if !changed {
			return g
		}
		return mk("and", SBool, args...)
	}
	return g
}

// substTerm replaces leaves named in m (bound variables) throughout t.
func substTerm(t *Term, m map[string]*Term) *Term {
	if len(t.Args) == 0 && len(t.Bound) == 0 {
		if r, ok := m[t.Op]; ok {
			return r
		}
		return t
	}
	changed := false
	args := make([]*Term, len(t.Args))
	for i, a := range t.Args {
		args[i] = substTerm(a, m)
		if args[i] != a {
			changed = true
		}
	}
	var pats []*Term
	for _, p := range t.Pat {
		q := substTerm(p, m)
		if q != p {
			changed = true
		}
		pats = append(pats, q)
	}
	if !changed {
		return t
	}
	return &Term{Op: t.Op, Args: args, Sort: t.Sort, Bound: t.Bound, Pat: pats}
}
