package main

import (
	"fmt"
	"go/ast"
	"go/types"
	"strings"
)

func (x *Exec) builtin(name string, e *ast.CallExpr, st *State) []Val {
	switch name {
	case "len", "cap":
		v := x.expr(e.Args[0], st)
		if v.Ty.K == TSlice {
			if name == "len" {
				return []Val{{T: slLen(v.T), Ty: tyInt}}
			}
			return []Val{{T: slCap(v.T), Ty: tyInt}}
		}
		if v.Ty.K == TOpaque && v.Ty.Go != nil {
			if mt, ok := v.Ty.Go.Underlying().(*types.Map); ok && name == "len" {
				return []Val{{T: x.mapLen(st, v, mt), Ty: tyInt}}
			}
			if b, ok := v.Ty.Go.Underlying().(*types.Basic); ok && b.Info()&types.IsString != 0 {
				x.sym.Func("strlen", []Sort{SInt}, SInt)
				t := mk("strlen", SInt, v.T)
				st.assume(Ge(t, IntLit(0)))
				return []Val{{T: t, Ty: tyInt}}
			}
		}
		x.unsupported(e, "%s of unsupported type", name)
	case "make":
		ty := x.tyOf(e)
		switch ty.K {
		case TSlice:
			n := x.expr(e.Args[1], st)
			cp := n.T
			if len(e.Args) > 2 {
				cp = x.expr(e.Args[2], st).T
				x.safe(st, "make", And(Le(IntLit(0), n.T), Le(n.T, cp)), e)
			} else {
				x.safe(st, "make", Le(IntLit(0), n.T), e)
			}
			reg := st.bump()
			hn, h := x.elemHeapOf(st, ty.Elem)
			st.heaps[hn] = Store(h, reg, x.constArray(ty.Elem))
			return []Val{{T: mkSlice(reg, IntLit(0), n.T, cp), Ty: ty}}
		case TOpaque:
			if mt, ok := ty.Go.Underlying().(*types.Map); ok {
				return []Val{x.newMap(st, ty, mt)}
			}
		}
		x.unsupported(e, "make of unsupported type")
	case "new":
		ty := x.tyOf(e)
		addr := x.allocCell(st, Val{T: x.zero(ty.Elem), Ty: ty.Elem})
		return []Val{{T: addr, Ty: ty}}
	case "append":
		return []Val{x.appendCall(e, st)}
	case "copy":
		dst := x.expr(e.Args[0], st)
		src := x.expr(e.Args[1], st)
		if dst.Ty.K != TSlice || src.Ty.K != TSlice {
			x.unsupported(e, "copy of non-slices")
		}
		n := mk("imin", SInt, slLen(dst.T), slLen(src.T))
		hn, h := x.elemHeapOf(st, dst.Ty.Elem)
		es := x.w.sortOf(dst.Ty.Elem, x.model)
		darr := st.sel(h, slReg(dst.T))
		sarr := st.sel(h, slReg(src.T))
		na := x.sym.Fresh("copied", ArrSort(SInt, es))
		k := BoundVar{Name: x.freshBound("k"), Sort: SInt}
		kt := mk(k.Name, SInt)
		doff, soff := slOff(dst.T), slOff(src.T)
		st.assume(Forall([]BoundVar{k}, Implies(And(Le(IntLit(0), kt), Lt(kt, n)),
			Eq(Select(na, IdxAdd(doff, kt)), Select(sarr, IdxAdd(soff, kt))))))
		k2 := BoundVar{Name: x.freshBound("k"), Sort: SInt}
		k2t := mk(k2.Name, SInt)
		st.assume(Forall([]BoundVar{k2}, Implies(Or(Lt(k2t, doff), Ge(k2t, Add(doff, n))),
			Eq(Select(na, k2t), Select(darr, k2t)))))
		x.recordWrite(st, hn, slReg(dst.T), nil, nil, nil, e)
		st.heaps[hn] = Store(h, slReg(dst.T), na)
		return []Val{{T: n, Ty: tyInt}}
	case "panic":
		x.oblige(st, "safe", fmt.Sprintf("panic%d", x.nextOrd("safe:panic")), tFalse, e.Pos(), "explicit panic unreachable")
		st.assume(tFalse)
		return nil
	case "min", "max":
		a := x.expr(e.Args[0], st)
		for _, ar := range e.Args[1:] {
			b := x.expr(ar, st)
			ta, tb, ty := x.unify(a, b)
			pre := map[Sort]string{SInt: "i", SReal: "r", SXR: "x"}[ta.Sort]
			a = Val{T: mk(pre+name, ta.Sort, ta, tb), Ty: ty}
		}
		return []Val{a}
	case "delete":
		mt := x.info().Types[e.Args[0]].Type.Underlying().(*types.Map)
		m := x.expr(e.Args[0], st)
		k := x.expr(e.Args[1], st)
		x.mapDelete(st, m, k, mt)
		return nil
	}
	x.unsupported(e, "unsupported builtin %s", name)
	panic("unreachable")
}

// appendCall models append(s, elems...) and append(s, t...).
func (x *Exec) appendCall(e *ast.CallExpr, st *State) Val {
	s := x.expr(e.Args[0], st)
	ty := x.tyOf(e)
	if s.Ty.K == TOpaque { // append(nil, ...)
		s = Val{T: nilSlice, Ty: ty}
	}
	es := x.w.sortOf(ty.Elem, x.model)
	var elems []*Term
	var spread *Val
	if e.Ellipsis.IsValid() {
		v := x.expr(e.Args[1], st)
		spread = &v
	} else {
		for _, a := range e.Args[1:] {
			elems = append(elems, x.coerceTo(x.expr(a, st), ty.Elem))
		}
	}
	var n *Term
	if spread != nil {
		n = slLen(spread.T)
	} else {
		n = IntLit(int64(len(elems)))
	}
	hn, h := x.elemHeapOf(st, ty.Elem)
	if s.T.Op != "mk_slice" && len(s.T.String()) > 30 {
		// a slice read from the heap (e.g. df[i]): name it, the header is
		// mentioned many times below
		nm := x.sym.Fresh("appbase", SSlice)
		st.assume(Eq(nm, s.T))
		s.T = nm
	}
	oldLen, oldCap, oldOff, oldReg := slLen(s.T), slCap(s.T), slOff(s.T), slReg(s.T)
	newLen := Add(oldLen, n)
	fits := Le(newLen, oldCap)
	freshReg := st.bump()
	reg := Ite(fits, oldReg, freshReg)
	off := Ite(fits, oldOff, IntLit(0))
	ncap := x.sym.Fresh("cap", SInt)
	st.assume(Implies(fits, Eq(ncap, oldCap)))
	st.assume(Implies(Not(fits), Ge(ncap, newLen)))
	oldArr := st.sel(h, oldReg)
	na := x.sym.Fresh("appended", ArrSort(SInt, es))
	// old contents
	k := BoundVar{Name: x.freshBound("k"), Sort: SInt}
	kt := mk(k.Name, SInt)
	st.assume(Forall([]BoundVar{k}, Implies(And(Le(IntLit(0), kt), Lt(kt, oldLen)),
		Eq(Select(na, IdxAdd(off, kt)), Select(oldArr, IdxAdd(oldOff, kt))))))
	// the same fact again, triggered by reads of the OLD array (needed to
	// carry existential facts about old elements over to the new slice)
	kb := BoundVar{Name: x.freshBound("k"), Sort: SInt}
	kbt := mk(kb.Name, SInt)
	if pat := Select(oldArr, IdxAdd(oldOff, kbt)); !strings.Contains(pat.String(), "(ite ") { // solvers reject ite inside patterns
		st.assume(Forall([]BoundVar{kb}, Implies(And(Le(IntLit(0), kbt), Lt(kbt, oldLen)),
			Eq(Select(na, IdxAdd(off, kbt)), Select(oldArr, IdxAdd(oldOff, kbt)))), pat))
	}
	// new elements
	if spread != nil {
		sarr := st.sel(h, slReg(spread.T))
		k2 := BoundVar{Name: x.freshBound("k"), Sort: SInt}
		k2t := mk(k2.Name, SInt)
		st.assume(Forall([]BoundVar{k2}, Implies(And(Le(IntLit(0), k2t), Lt(k2t, n)),
			Eq(Select(na, IdxAdd(off, Add(oldLen, k2t))), Select(sarr, IdxAdd(slOff(spread.T), k2t))))))
	} else {
		for i, el := range elems {
			st.assume(Eq(Select(na, IdxAdd(off, Add(oldLen, IntLit(int64(i))))), el))
		}
	}
	// in-place: other cells of the region unchanged
	k3 := BoundVar{Name: x.freshBound("k"), Sort: SInt}
	k3t := mk(k3.Name, SInt)
	st.assume(Implies(fits, Forall([]BoundVar{k3}, Implies(Or(Lt(k3t, Add(oldOff, oldLen)), Ge(k3t, Add(oldOff, newLen))),
		Eq(Select(na, k3t), Select(oldArr, k3t))))))
	// A nil slice has capacity 0, so "fits" with a nil slice means nothing is
	// appended; direct that no-op write to the unused fresh region so that
	// region 0 is never written.
	regW := Ite(And(fits, Eq(oldReg, IntLit(0))), freshReg, reg)
	if len(regW.String()) > 120 {
		nm := x.sym.Fresh("appreg", SInt)
		st.assume(Eq(nm, regW))
		regW = nm
	}
	x.recordWrite(st, hn, regW, nil, nil, nil, e)
	st.heaps[hn] = Store(h, regW, na)
	// appending nothing to nil yields nil
	res := mkSlice(reg, off, newLen, ncap)
	return Val{T: res, Ty: ty}
}

// ---------------------------------------------------------------------
// package math

func (x *Exec) mathCall(name string, args []Val, e *ast.CallExpr, st *State) []Val {
	fl := func(t *Term) Val { return Val{T: t, Ty: tyFloat} }
	xr := x.model.Float == SXR
	switch name {
	case "Floor", "Ceil", "Abs":
		n := map[string]string{"Floor": "floor", "Ceil": "ceil", "Abs": "abs"}[name]
		if xr {
			return []Val{fl(mk("x"+n, SXR, args[0].T))}
		}
		return []Val{fl(mk("r"+n, SReal, args[0].T))}
	case "Trunc":
		if xr {
			return []Val{fl(Ite(mk("xisfin", SBool, args[0].T), mk("fin", SXR, ToReal(mk("xtrunc", SInt, args[0].T))), args[0].T))}
		}
		return []Val{fl(ToReal(mk("rtrunc", SInt, args[0].T)))}
	case "Min", "Max":
		n := map[string]string{"Min": "min", "Max": "max"}[name]
		if xr {
			return []Val{fl(mk("x"+n, SXR, args[0].T, args[1].T))}
		}
		return []Val{fl(mk("r"+n, SReal, args[0].T, args[1].T))}
	case "IsNaN":
		if xr {
			return []Val{{T: mk("xisnan", SBool, args[0].T), Ty: tyBool}}
		}
		return []Val{{T: Eq(args[0].T, x.rnan()), Ty: tyBool}}
	case "IsInf":
		if xr {
			sgn := args[1].T
			p := Eq(args[0].T, mk("pinf", SXR))
			n := Eq(args[0].T, mk("ninf", SXR))
			return []Val{{T: Or(And(Ge(sgn, IntLit(0)), p), And(Le(sgn, IntLit(0)), n)), Ty: tyBool}}
		}
		return []Val{{T: tFalse, Ty: tyBool}}
	case "Inf":
		if xr {
			return []Val{fl(Ite(Ge(args[0].T, IntLit(0)), mk("pinf", SXR), mk("ninf", SXR)))}
		}
		x.unsupported(e, "math.Inf in model real")
	case "NaN":
		if xr {
			return []Val{fl(mk("nan", SXR))}
		}
		return []Val{fl(x.rnan())}
	case "Modf":
		// int part (truncated), fractional part
		if xr {
			a := args[0].T
			ip := Ite(mk("xisfin", SBool, a), mk("fin", SXR, ToReal(mk("xtrunc", SInt, a))), a)
			fp := Ite(mk("xisfin", SBool, a), mk("xsub", SXR, a, ip), Ite(mk("xisnan", SBool, a), a, mk("fin", SXR, mk("0.0", SReal))))
			return []Val{fl(ip), fl(fp)}
		}
		ip := ToReal(mk("rtrunc", SInt, args[0].T))
		return []Val{fl(ip), fl(mk("-", SReal, args[0].T, ip))}
	case "Sqrt", "Exp", "Log", "Erfc", "Lgamma", "Pow", "Log2", "Log10", "Erf", "Gamma", "Log1p", "Expm1":
		lname := map[string]string{"Sqrt": "sqrt", "Exp": "exp", "Log": "log", "Erfc": "erfc", "Lgamma": "lgamma", "Pow": "pow",
			"Log2": "log2", "Log10": "log10", "Erf": "erf", "Gamma": "gamma", "Log1p": "log1p", "Expm1": "expm1"}[name]
		v := x.mathFn(lname, args)
		if name == "Lgamma" {
			x.sym.Func("lgamma_sign", []Sort{v.T.Sort}, SInt)
			return []Val{v, {T: mk("lgamma_sign", SInt, args[0].T), Ty: tyInt}}
		}
		return []Val{v}
	case "TrailingZeros32":
		if args[0].T.Sort == SBV32 {
			return []Val{{T: mk("tz32", SInt, args[0].T), Ty: tyInt}}
		}
	case "MaxInt", "MaxInt64":
	}
	x.unsupported(e, "unsupported math function %s", name)
	panic("unreachable")
}

// rnan: in model real a NaN that is only produced and tested, never
// computed with, is a distinguished constant; finite inputs differ from it.
func (x *Exec) rnan() *Term {
	x.noteTrusted("model real: NaN is a distinguished value that the code may return or test but is assumed not to compute with (arithmetic on NaN is not modelled; use model xreal for that)")
	return x.sym.Const("rnan", SReal)
}

// mathFn: transcendental functions are uninterpreted; the ground facts
// about each application are added when the obligation is assembled
// (see groundMathFacts).
func (x *Exec) mathFn(name string, args []Val) Val {
	x.noteTrusted("A3: math." + name + " is an uninterpreted function constrained only by the axioms listed in DESIGN.md §3")
	fs := x.model.Float
	pre := "r"
	if fs == SXR {
		pre = "x"
	}
	var sorts []Sort
	var ts []*Term
	for _, a := range args {
		var t *Term
		if fs == SXR {
			t = x.toXR(a)
		} else {
			t = x.toReal(a)
		}
		sorts = append(sorts, fs)
		ts = append(ts, t)
	}
	fn := pre + "fn_" + name
	x.sym.Func(fn, sorts, fs)
	return Val{T: mk(fn, fs, ts...), Ty: tyFloat}
}
