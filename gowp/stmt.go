package main

import (
	"fmt"
	"go/ast"
	"go/token"
	"go/types"
	"strings"
)

type outcome struct {
	normal    *State
	breaks    map[string][]*State
	continues map[string][]*State
	gotos     map[string][]*State
}

func (o *outcome) addGoto(label string, s *State) {
	if o.gotos == nil {
		o.gotos = map[string][]*State{}
	}
	o.gotos[label] = append(o.gotos[label], s)
}

func (o *outcome) addBreak(label string, s *State) {
	if o.breaks == nil {
		o.breaks = map[string][]*State{}
	}
	o.breaks[label] = append(o.breaks[label], s)
}
func (o *outcome) addContinue(label string, s *State) {
	if o.continues == nil {
		o.continues = map[string][]*State{}
	}
	o.continues[label] = append(o.continues[label], s)
}
func (o *outcome) absorb(p outcome) {
	for l, ss := range p.breaks {
		for _, s := range ss {
			o.addBreak(l, s)
		}
	}
	for l, ss := range p.continues {
		for _, s := range ss {
			o.addContinue(l, s)
		}
	}
	for l, ss := range p.gotos {
		for _, s := range ss {
			o.addGoto(l, s)
		}
	}
}

func (x *Exec) block(list []ast.Stmt, st *State) outcome {
	var out outcome
	cur := st
	for _, s := range list {
		// forward goto: states that jumped to this label join here
		if ls, ok := s.(*ast.LabeledStmt); ok {
			if pend := out.gotos[ls.Label.Name]; len(pend) > 0 {
				all := pend
				if cur != nil {
					all = append([]*State{cur}, pend...)
				}
				cur = x.mergeAll(all)
				delete(out.gotos, ls.Label.Name)
			}
		}
		if cur == nil {
			continue
		}
		o := x.stmt(s, cur, "")
		out.absorb(o)
		cur = o.normal
	}
	out.normal = cur
	return out
}

func (x *Exec) stmt(s ast.Stmt, st *State, label string) outcome {
	switch s := s.(type) {
	case *ast.BlockStmt:
		return x.block(s.List, st)
	case *ast.ExprStmt:
		if c, ok := s.X.(*ast.CallExpr); ok {
			if id, ok := c.Fun.(*ast.Ident); ok && id.Name == "panic" {
				if _, isB := x.info().ObjectOf(id).(*types.Builtin); isB {
					if x.panicAllowed(s.Pos()) {
						return outcome{}
					}
					x.oblige(st, "safe", fmt.Sprintf("panic%d", x.nextOrd("safe:panic")), tFalse, s.Pos(), "explicit panic unreachable")
					return outcome{}
				}
			}
			x.call(c, st)
			// statement anchor: after the k-th call statement of this callee
			// (as written: sort.Ints, visit, m.grow ...) in execution order
			name := exprText(c.Fun)
			k := x.nextOrd("anchor:call:" + x.cur().key + ":" + name)
			x.anchoredAsserts(fmt.Sprintf("call:%s#%d", name, k), 0, st, s.End())
			return outcome{normal: st}
		}
		x.unsupported(s, "expression statement")
	case *ast.AssignStmt:
		x.assignStmt(s, st)
		// statement anchor: after the k-th assignment to a variable
		for _, l := range s.Lhs {
			if id, ok := l.(*ast.Ident); ok && id.Name != "_" {
				k := x.nextOrd("anchor:assign:" + x.cur().key + ":" + id.Name)
				x.anchoredAsserts(fmt.Sprintf("assign:%s#%d", id.Name, k), 0, st, s.End())
			}
		}
		return outcome{normal: st}
	case *ast.IncDecStmt:
		v := x.expr(s.X, st)
		one := Val{T: IntLit(1), Ty: tyInt}
		if v.T.Sort != SInt && v.T.Sort != SReal && v.T.Sort != SXR {
			x.unsupported(s, "inc/dec on unsupported type")
		}
		op := "+"
		if s.Tok == token.DEC {
			op = "-"
		}
		if op == "-" && v.Ty.Unsigned {
			x.safe(st, "uwrap", Ge(v.T, IntLit(1)), s)
		}
		nv := x.arith(op, v, one)
		nv.Ty = v.Ty
		x.assign(s.X, nv, st)
		return outcome{normal: st}
	case *ast.DeclStmt:
		gd := s.Decl.(*ast.GenDecl)
		if gd.Tok == token.VAR {
			for _, sp := range gd.Specs {
				vs := sp.(*ast.ValueSpec)
				if len(vs.Values) == 0 {
					for _, n := range vs.Names {
						o := x.info().Defs[n].(*types.Var)
						x.declare(o, Val{T: x.zero(x.w.goTy(o.Type(), x.model.BV)), Ty: x.w.goTy(o.Type(), x.model.BV)}, st)
					}
				} else if len(vs.Values) == len(vs.Names) {
					for i, n := range vs.Names {
						v := x.expr(vs.Values[i], st)
						if n.Name == "_" {
							continue
						}
						o := x.info().Defs[n].(*types.Var)
						x.declare(o, v, st)
					}
				} else {
					x.unsupported(s, "var decl with tuple initializer")
				}
			}
			return outcome{normal: st}
		}
		if gd.Tok == token.CONST || gd.Tok == token.TYPE {
			return outcome{normal: st}
		}
		x.unsupported(s, "declaration")
	case *ast.ReturnStmt:
		x.returnStmt(s, st)
		return outcome{}
	case *ast.IfStmt:
		return x.ifStmt(s, st)
	case *ast.ForStmt:
		return x.forStmt(s, st, label)
	case *ast.RangeStmt:
		return x.rangeStmt(s, st, label)
	case *ast.SwitchStmt:
		return x.switchStmt(s, st, label)
	case *ast.LabeledStmt:
		return x.stmt(s.Stmt, st, s.Label.Name)
	case *ast.BranchStmt:
		l := ""
		if s.Label != nil {
			l = s.Label.Name
		}
		var o outcome
		switch s.Tok {
		case token.BREAK:
			o.addBreak(l, st)
		case token.CONTINUE:
			o.addContinue(l, st)
		case token.GOTO:
			o.addGoto(l, st)
		default:
			x.unsupported(s, "unsupported branch statement %s", s.Tok)
		}
		return o
	case *ast.EmptyStmt:
		return outcome{normal: st}
	}
	x.unsupported(s, "unsupported statement %T", s)
	panic("unreachable")
}

func (x *Exec) declare(o *types.Var, v Val, st *State) {
	ty := x.w.goTy(o.Type(), x.model.BV)
	if ty.K == TOpaque && v.Ty.K != TOpaque {
		v = x.toInterface(v, ty, nil)
	}
	t := x.coerceTo(v, ty)
	if x.heapified[o] {
		st.vars[o] = x.allocCell(st, Val{T: t, Ty: ty})
		return
	}
	st.vars[o] = t
}

func (x *Exec) assignStmt(s *ast.AssignStmt, st *State) {
	if s.Tok != token.ASSIGN && s.Tok != token.DEFINE {
		// compound assignment
		lv := x.expr(s.Lhs[0], st)
		rv := x.expr(s.Rhs[0], st)
		op := tokOps[s.Tok]
		rty := x.tyOf(s.Lhs[0])
		if (op == "/" || op == "%") && rty.K == TInt {
			x.safe(st, "div", Not(Eq(rv.T, IntLit(0))), s)
		} else if op == "/" && x.model.Float == SReal {
			x.safe(st, "fdiv", Not(Eq(x.toReal(rv), mk("0.0", SReal))), s)
		}
		if op == "-" && rty.K == TInt && rty.Unsigned {
			x.safe(st, "uwrap", Ge(lv.T, rv.T), s)
		}
		nv := x.arith(op, lv, rv)
		nv.Ty = rty
		x.assign(s.Lhs[0], nv, st)
		return
	}
	var vals []Val
	if len(s.Rhs) == 1 && len(s.Lhs) > 1 {
		vals = x.multi(s.Rhs[0], st, len(s.Lhs))
	} else {
		for _, r := range s.Rhs {
			vals = append(vals, x.expr(r, st))
		}
	}
	if len(vals) != len(s.Lhs) {
		x.unsupported(s, "assignment arity mismatch")
	}
	// Go evaluates index/pointer operands of the LHS before assigning; for
	// the subset handled here (tuple swaps of fields and elements) the
	// RHS values are already computed, so assigning in order is exact
	// unless an LHS index depends on an earlier LHS variable.
	for i, l := range s.Lhs {
		if id, ok := l.(*ast.Ident); ok {
			if id.Name == "_" {
				continue
			}
			if s.Tok == token.DEFINE {
				if o, ok := x.info().Defs[id].(*types.Var); ok && o != nil {
					x.declare(o, vals[i], st)
					continue
				}
			}
		}
		x.assign(l, vals[i], st)
	}
}

// multi evaluates an expression producing n values (call, map index with
// comma-ok, type assertion).
func (x *Exec) multi(e ast.Expr, st *State, n int) []Val {
	switch e := e.(type) {
	case *ast.ParenExpr:
		return x.multi(e.X, st, n)
	case *ast.CallExpr:
		vs := x.call(e, st)
		if len(vs) != n {
			x.unsupported(e, "call returns %d values, want %d", len(vs), n)
		}
		return vs
	case *ast.IndexExpr:
		bt := x.info().Types[e.X].Type
		if mt, ok := bt.Underlying().(*types.Map); ok && n == 2 {
			m := x.expr(e.X, st)
			k := x.expr(e.Index, st)
			return []Val{x.mapGet(st, m, k, mt), {T: x.mapHas(st, m, k, mt), Ty: tyBool}}
		}
	case *ast.TypeAssertExpr:
		if n == 2 {
			return x.typeAssert2(e, st)
		}
	}
	x.unsupported(e, "unsupported multi-value expression")
	panic("unreachable")
}

// assign stores v into the lvalue lhs.
func (x *Exec) assign(lhs ast.Expr, v Val, st *State) {
	switch l := lhs.(type) {
	case *ast.ParenExpr:
		x.assign(l.X, v, st)
	case *ast.Ident:
		if l.Name == "_" {
			return
		}
		o, _ := x.info().ObjectOf(l).(*types.Var)
		if o == nil {
			x.unsupported(l, "assignment to non-variable")
		}
		ty := x.w.goTy(o.Type(), x.model.BV)
		if ty.K == TOpaque && v.Ty.K != TOpaque {
			v = x.toInterface(v, ty, nil)
		}
		t := x.coerceTo(v, ty)
		if o.Pkg() != nil && o.Parent() == o.Pkg().Scope() {
			x.readGlobal(st, o) // make sure the entry value is recorded
			st.globals[o] = t
			return
		}
		if x.heapified[o] {
			hn, h := x.ptrHeapOf(st, ty)
			x.recordWrite(st, hn, st.vars[o], nil, nil, nil, l)
			st.heaps[hn] = Store(h, st.vars[o], t)
			return
		}
		if _, ok := st.vars[o]; !ok {
			x.unsupported(l, "assignment to variable outside the symbolic state: %s", l.Name)
		}
		st.vars[o] = t
	case *ast.SelectorExpr:
		if id, ok := l.X.(*ast.Ident); ok {
			if _, isPkg := x.info().ObjectOf(id).(*types.PkgName); isPkg {
				x.assign(l.Sel, v, st)
				return
			}
		}
		sel := x.info().Selections[l]
		if sel == nil || sel.Kind() != types.FieldVal {
			x.unsupported(l, "unsupported selector assignment")
		}
		x.assignField(l.X, sel.Index(), v, st, l)
	case *ast.IndexExpr:
		bt := x.info().Types[l.X].Type
		if mt, ok := bt.Underlying().(*types.Map); ok {
			m := x.expr(l.X, st)
			k := x.expr(l.Index, st)
			x.mapSet(st, m, k, v, mt)
			return
		}
		base := x.expr(l.X, st)
		idx := x.expr(l.Index, st)
		if base.Ty.K != TSlice {
			x.unsupported(l, "index assignment to non-slice")
		}
		x.safe(st, "index", And(Le(IntLit(0), idx.T), Lt(idx.T, slLen(base.T))), l)
		x.storeElem(st, base, idx.T, x.coerceTo(v, base.Ty.Elem))
	case *ast.StarExpr:
		p := x.expr(l.X, st)
		if p.Ty.K != TPtr {
			x.unsupported(l, "store through non-pointer")
		}
		x.safe(st, "nil", Not(Eq(p.T, IntLit(0))), l)
		hn, h := x.ptrHeapOf(st, p.Ty.Elem)
		x.recordWrite(st, hn, p.T, nil, nil, nil, l)
		st.heaps[hn] = Store(h, p.T, x.coerceTo(v, p.Ty.Elem))
	default:
		x.unsupported(lhs, "unsupported assignment target %T", lhs)
	}
}

func (x *Exec) storeElem(st *State, base Val, idx, v *Term) {
	hn, h := x.elemHeapOf(st, base.Ty.Elem)
	reg := slReg(base.T)
	x.recordWrite(st, hn, reg, nil, nil, nil, nil)
	st.heaps[hn] = Store(h, reg, Store(st.sel(h, reg), IdxAdd(slOff(base.T), idx), v))
}

// assignField assigns into base.<path> where base is an expression of
// struct or pointer-to-struct type.
func (x *Exec) assignField(baseExpr ast.Expr, path []int, v Val, st *State, n ast.Node) {
	base := x.expr(baseExpr, st)
	if base.Ty.K == TPtr && base.T.Op == "elemaddr" {
		// store through an interior pointer: update the slice element
		hn, h := x.elemHeapOf(st, base.Ty.Elem)
		reg, at := base.T.Args[0], base.T.Args[1]
		old := Val{T: Select(st.sel(h, reg), at), Ty: base.Ty.Elem}
		nv := x.updatePath(st, old, path, v, n)
		_, h = x.elemHeapOf(st, base.Ty.Elem)
		x.recordWrite(st, hn, reg, nil, nil, nil, n)
		st.heaps[hn] = Store(h, reg, Store(st.sel(h, reg), at, nv))
		return
	}
	if base.Ty.K == TPtr {
		x.safe(st, "nil", Not(Eq(base.T, IntLit(0))), n)
		hn, h := x.ptrHeapOf(st, base.Ty.Elem)
		old := Val{T: st.sel(h, base.T), Ty: base.Ty.Elem}
		nv := x.updatePath(st, old, path, v, n)
		// re-read heap (updatePath may have touched it through nested pointers)
		_, h = x.ptrHeapOf(st, base.Ty.Elem)
		x.recordWrite(st, hn, base.T, nv, old.T, base.Ty.Elem, n)
		st.heaps[hn] = Store(h, base.T, nv)
		return
	}
	if base.Ty.K != TStruct {
		x.unsupported(n, "field assignment on non-struct")
	}
	nv := x.updatePath(st, base, path, v, n)
	x.assign(baseExpr, Val{T: nv, Ty: base.Ty}, st)
}

func (x *Exec) updatePath(st *State, base Val, path []int, v Val, n ast.Node) *Term {
	i := path[0]
	f := base.Ty.Struct.Fields[i]
	if len(path) == 1 {
		return x.structSet(base.T, base.Ty, i, x.coerceTo(v, f.Ty))
	}
	inner := Val{T: x.structGet(base.T, base.Ty, i), Ty: f.Ty}
	if inner.Ty.K == TPtr {
		hn, h := x.ptrHeapOf(st, inner.Ty.Elem)
		old := Val{T: st.sel(h, inner.T), Ty: inner.Ty.Elem}
		nv := x.updatePath(st, old, path[1:], v, n)
		x.recordWrite(st, hn, inner.T, nv, old.T, inner.Ty.Elem, n)
		st.heaps[hn] = Store(h, inner.T, nv)
		return base.T
	}
	return x.structSet(base.T, base.Ty, i, x.updatePath(st, inner, path[1:], v, n))
}

func (x *Exec) returnStmt(s *ast.ReturnStmt, st *State) {
	fr := x.cur()
	var vals []Val
	n := len(fr.resVars)
	switch {
	case len(s.Results) == 0:
		vals = nil
	case len(s.Results) == 1 && n > 1:
		vals = x.multi(s.Results[0], st, n)
	default:
		for _, r := range s.Results {
			vals = append(vals, x.expr(r, st))
		}
	}
	if vals != nil && len(vals) != n {
		x.unsupported(s, "return arity mismatch")
	}
	x.doReturn(st, vals, s.Pos())
}

func (x *Exec) ifStmt(s *ast.IfStmt, st *State) outcome {
	if s.Init != nil {
		o := x.stmt(s.Init, st, "")
		st = o.normal
	}
	c := x.expr(s.Cond, st)
	var out outcome
	// constant conditions (e.g. `if debug` with const debug = false): the dead
	// branch is not translated
	if isLit(c.T, "false") {
		if s.Else != nil {
			return x.stmt(s.Else, st, "")
		}
		return outcome{normal: st}
	}
	if isLit(c.T, "true") {
		return x.block(s.Body.List, st)
	}
	thenSt := st.clone()
	thenSt.assume(c.T)
	elseSt := st
	elseSt.assume(Not(c.T))
	to := x.block(s.Body.List, thenSt)
	out.absorb(to)
	var eo outcome
	if s.Else != nil {
		eo = x.stmt(s.Else, elseSt, "")
		out.absorb(eo)
	} else {
		eo = outcome{normal: elseSt}
	}
	out.normal = x.mergeStates(to.normal, eo.normal)
	return out
}

func (x *Exec) switchStmt(s *ast.SwitchStmt, st *State, label string) outcome {
	if s.Init != nil {
		o := x.stmt(s.Init, st, "")
		st = o.normal
	}
	var tag *Val
	if s.Tag != nil {
		v := x.expr(s.Tag, st)
		tag = &v
	}
	var out outcome
	var ends []*State
	rest := st // state in which no earlier case matched
	var deflt *ast.CaseClause
	for _, cc := range s.Body.List {
		cl := cc.(*ast.CaseClause)
		if cl.List == nil {
			deflt = cl
			continue
		}
		var conds []*Term
		for _, ce := range cl.List {
			cv := x.expr(ce, rest)
			if tag != nil {
				conds = append(conds, x.compare("==", *tag, cv, true))
			} else {
				conds = append(conds, cv.T)
			}
		}
		cond := Or(conds...)
		cs := rest.clone()
		cs.assume(cond)
		rest.assume(Not(cond))
		o := x.block(cl.Body, cs)
		for _, b := range o.breaks[""] {
			ends = append(ends, b)
		}
		delete(o.breaks, "")
		if label != "" {
			for _, b := range o.breaks[label] {
				ends = append(ends, b)
			}
			delete(o.breaks, label)
		}
		out.absorb(o)
		if o.normal != nil {
			ends = append(ends, o.normal)
		}
	}
	if deflt != nil {
		o := x.block(deflt.Body, rest)
		for _, b := range o.breaks[""] {
			ends = append(ends, b)
		}
		delete(o.breaks, "")
		out.absorb(o)
		if o.normal != nil {
			ends = append(ends, o.normal)
		}
	} else {
		ends = append(ends, rest)
	}
	out.normal = x.mergeAll(ends)
	return out
}

// ---------------------------------------------------------------------
// loops

type loopInfo struct {
	assigned map[types.Object]bool
	heaps    bool // any store / call with side effects
}

// assignedIn collects local variables assigned inside the nodes.
var visiting = map[types.Object]bool{}

func (x *Exec) assignedIn(nodes ...ast.Node) map[types.Object]bool {
	out := map[types.Object]bool{}
	info := x.info()
	for _, n := range nodes {
		if n == nil {
			continue
		}
		ast.Inspect(n, func(n ast.Node) bool {
			mark := func(e ast.Expr) {
				// res.f = v on a struct-valued local: only field f changes
				if sel, ok := e.(*ast.SelectorExpr); ok {
					if id, ok := sel.X.(*ast.Ident); ok {
						if o, ok := info.ObjectOf(id).(*types.Var); ok {
							if s := info.Selections[sel]; s != nil && s.Kind() == types.FieldVal && len(s.Index()) == 1 {
								if _, isStruct := o.Type().Underlying().(*types.Struct); isStruct {
									if x.fieldAsg == nil {
										x.fieldAsg = map[types.Object]map[int]bool{}
									}
									if x.fieldAsg[o] == nil {
										x.fieldAsg[o] = map[int]bool{}
									}
									x.fieldAsg[o][s.Index()[0]] = true
									if !out[o] {
										out[o] = false // present, but only field-wise
									}
									return
								}
							}
						}
					}
				}
				for {
					switch t := e.(type) {
					case *ast.ParenExpr:
						e = t.X
						continue
					case *ast.SelectorExpr:
						// assignment to a field of a struct-valued local; a
						// store THROUGH a pointer (p.f = v, p a pointer)
						// changes the heap, not the variable p
						if tv, ok := info.Types[t.X]; ok {
							if _, isPtr := tv.Type.Underlying().(*types.Pointer); isPtr {
								return
							}
						}
						e = t.X
						continue
					case *ast.Ident:
						if o, ok := info.ObjectOf(t).(*types.Var); ok {
							out[o] = true
						}
					}
					return
				}
			}
			switch s := n.(type) {
			case *ast.AssignStmt:
				for _, l := range s.Lhs {
					mark(l)
				}
			case *ast.IncDecStmt:
				mark(s.X)
			case *ast.RangeStmt:
				if s.Key != nil {
					mark(s.Key)
				}
				if s.Value != nil {
					mark(s.Value)
				}
			case *ast.FuncLit:
				// assignments inside a literal happen when it is called; calls
				// of local literals are accounted for where they occur
				return false
			case *ast.CallExpr:
				if id, ok := s.Fun.(*ast.Ident); ok {
					if o := info.ObjectOf(id); o != nil && !visiting[o] {
						if x.selfVar != nil && o == types.Object(x.selfVar) && len(x.frames) == 1 {
							// recursive call of the literal being verified
							visiting[o] = true
							for k, v := range x.assignedIn(x.fi.Decl.Body) {
								if v || !out[k] {
									out[k] = v || out[k]
								}
							}
							delete(visiting, o)
						} else if lit := x.closureLitOf(o); lit != nil {
							visiting[o] = true
							for k, v := range x.assignedIn(lit.Body) {
								if v || !out[k] {
									out[k] = v || out[k]
								}
							}
							delete(visiting, o)
						}
					}
				}
			}
			return true
		})
	}
	return out
}

func (x *Exec) loopContract(n ast.Node, varName string) (*LoopContract, int) {
	fr := x.cur()
	fr.loopOrd++
	ord := fr.loopOrd
	var lc *LoopContract
	if fr.fc != nil {
		lc = fr.fc.Loops[ord]
	}
	if lc == nil {
		x.unsupported(n, "loop %d of %s has no invariant", ord, fr.key)
	}
	if a, ok := x.aliasOf(lc.Var); ok && a == varName {
		return lc, ord
	}
	if lc.Var != "" && varName != "" && lc.Var != varName {
		x.unsupported(n, "anchor-mismatch: loop %d of %s iterates over %q, contract expects %q", ord, fr.key, varName, lc.Var)
	}
	return lc, ord
}

// invEnv: contract environment for invariants: names denote current values.
func (x *Exec) invEnv(st *State, pos token.Pos, extra map[string]Val) *CEnv {
	fr := x.cur()
	scope := fr.pkg.Types.Scope().Innermost(pos)
	look := func(name string) (Val, bool) {
		if v, ok := extra[name]; ok {
			return v, true
		}
		if v, ok := fr.ghosts[name]; ok {
			return v, true
		}
		if scope != nil {
			if _, o := scope.LookupParent(name, pos); o != nil {
				if v, ok := o.(*types.Var); ok && !(v.Pkg() != nil && v.Parent() == v.Pkg().Scope()) {
					if t, ok := st.vars[v]; ok {
						ty := x.w.goTy(v.Type(), x.model.BV)
						if x.heapified[v] {
							_, h := x.ptrHeapOf(st, ty)
							return Val{T: st.sel(h, t), Ty: ty}, true
						}
						return Val{T: t, Ty: ty}, true
					}
				}
			}
		}
		// a variable that has gone out of lexical scope but is still part of
		// the symbolic state (e.g. the counter of the loop just left), if the
		// name is unambiguous
		{
			var found types.Object
			n := 0
			for o := range st.vars {
				if o.Name() == name {
					found = o
					n++
				}
			}
			if n == 1 {
				if v, ok := found.(*types.Var); ok && !x.heapified[v] {
					return Val{T: st.vars[found], Ty: x.w.goTy(v.Type(), x.model.BV)}, true
				}
			}
		}
		// named results and parameters by name
		for _, rv := range fr.resVars {
			if rv.Name() == name {
				if t, ok := st.vars[rv]; ok {
					return Val{T: t, Ty: x.w.goTy(rv.Type(), x.model.BV)}, true
				}
			}
		}
		if fr.top {
			if v, ok := x.entryVals[name]; ok {
				// lets and ghost names
				if _, isParam := x.paramObj(name); !isParam {
					return v, true
				}
			}
		}
		return Val{}, false
	}
	oldLook := func(name string) (Val, bool) { v, ok := x.entryVals[name]; return v, ok }
	return &CEnv{x: x, st: st, old: x.entry, lookup: look, oldLook: oldLook, pkg: fr.pkg.Types, oldAlloc: x.entry0Alloc()}
}

func (x *Exec) paramObj(name string) (types.Object, bool) {
	sig := x.fi.Obj.Type().(*types.Signature)
	if r := sig.Recv(); r != nil && r.Name() == name {
		return r, true
	}
	for i := 0; i < sig.Params().Len(); i++ {
		if sig.Params().At(i).Name() == name {
			return sig.Params().At(i), true
		}
	}
	return nil, false
}

func (x *Exec) forStmt(s *ast.ForStmt, st *State, label string) outcome {
	if s.Init != nil {
		o := x.stmt(s.Init, st, "")
		st = o.normal
	}
	varName := ""
	if as, ok := s.Init.(*ast.AssignStmt); ok && len(as.Lhs) == 1 {
		if id, ok := as.Lhs[0].(*ast.Ident); ok {
			varName = id.Name
		}
	}
	lc, ord := x.loopContract(s, varName)
	bodyPos := s.Body.Lbrace
	// establish
	env := x.invEnv(st, bodyPos, nil)
	invs := x.usableInvs(lc, env, ord)
	for i, inv := range invs {
		x.oblige(st, "loop", fmt.Sprintf("%d:init:%s", ord, invLabel(inv, i)), env.evalBool(inv.E), s.Pos(), inv.Src)
	}
	preLoop := st.clone()
	// arbitrary iteration
	x.havocLoop(st, lc, ord, bodyPos, s.Cond, s.Body, s.Post)
	env = x.invEnv(st, bodyPos, nil)
	x.assumeInvs(st, lc, env, invs)
	head := st.clone()
	var cond *Term = tTrue
	if s.Cond != nil {
		cond = x.expr(s.Cond, st).T
	}
	exitSt := st.clone()
	exitSt.assume(Not(cond))
	bodySt := st
	bodySt.assume(cond)
	pop := x.pushLoopScope(lc, ord, preLoop, bodyPos)
	bo := x.block(s.Body.List, bodySt)
	var out outcome
	ends := []*State{}
	if bo.normal != nil {
		ends = append(ends, bo.normal)
	}
	ends = append(ends, bo.continues[""]...)
	delete(bo.continues, "")
	if label != "" {
		ends = append(ends, bo.continues[label]...)
		delete(bo.continues, label)
	}
	exits := []*State{exitSt}
	exits = append(exits, bo.breaks[""]...)
	delete(bo.breaks, "")
	if label != "" {
		exits = append(exits, bo.breaks[label]...)
		delete(bo.breaks, label)
	}
	out.absorb(bo)
	if end := x.mergeAll(ends); end != nil {
		if s.Post != nil {
			o := x.stmt(s.Post, end, "")
			end = o.normal
		}
		x.anchoredAsserts(fmt.Sprintf("loop%d:end", ord), ord, end, bodyPos)
		env := x.invEnv(end, bodyPos, nil)
		for i, inv := range invs {
			x.oblige(end, "loop", fmt.Sprintf("%d:pres:%s", ord, invLabel(inv, i)), env.evalBool(inv.E), s.Pos(), inv.Src)
		}
	}
	pop()
	_ = head
	if s.Cond == nil && len(exits) == 1 {
		exits = nil // for {} without break never exits normally
	} else if s.Cond == nil {
		exits = exits[1:]
	}
	out.normal = x.mergeAll(exits)
	x.exitAsserts(ord, out.normal, s.End())
	return out
}

// usableInvs: invariants whose identifiers all resolve at this loop. An
// invariant that mentions a variable no longer in scope (the code was
// refactored) is dropped with a note: if the remaining obligations still
// discharge nothing is lost, otherwise they fail and are reported.
func (x *Exec) usableInvs(lc *LoopContract, env *CEnv, ord int) []Clause {
	var out []Clause
	for _, inv := range lc.Invs {
		ok := true
		func() {
			defer func() {
				if r := recover(); r != nil {
					if s, isStr := r.(string); isStr && strings.Contains(s, "unknown identifier") {
						ok = false
						x.notes = append(x.notes, fmt.Sprintf("%s loop %d: invariant dropped, its anchor is lost (%s): %s", x.cur().key, ord, s, inv.Src))
						return
					}
					panic(r)
				}
			}()
			nob := len(x.obls)
			env.evalBool(inv.E)
			x.obls = x.obls[:nob]
		}()
		if ok {
			out = append(out, inv)
		}
	}
	return out
}

func invLabel(c Clause, i int) string {
	if c.Label != "" {
		return c.Label
	}
	return fmt.Sprintf("i%d", i+1)
}

// checkLoopModifies: with an explicit modifies clause, one iteration must
// leave every pre-existing cell outside the clause unchanged.
func (x *Exec) checkLoopModifies(lc *LoopContract, ord int, head, end, pre *State, bodyPos, pos token.Pos) {
	if !lc.HasMod {
		return
	}
	env := x.invEnv(pre, bodyPos, nil)
	targets := x.assignTargets(env, lc.Modifies)
	var goals []*Term
	for hn := range x.heapSorts {
		h0, ok0 := head.heaps[hn]
		h1, ok1 := end.heaps[hn]
		if !ok0 || !ok1 || h0 == h1 {
			continue
		}
		k := BoundVar{Name: x.freshBound("r"), Sort: SInt}
		kt := mk(k.Name, SInt)
		conds := []*Term{Le(IntLit(0), kt), Lt(kt, x.entry0Alloc())}
		for _, t := range targets {
			if t.heap == hn {
				conds = append(conds, Not(Eq(kt, t.key)))
			}
		}
		goals = append(goals, x.cellsEqual(hn, h1, h0, k, kt, And(conds...)))
	}
	x.oblige(end, "loop", fmt.Sprintf("%d:modifies", ord), And(goals...), pos, "loop modifies")
}

func (x *Exec) rangeStmt(s *ast.RangeStmt, st *State, label string) outcome {
	xt := x.info().Types[s.X].Type
	keyName := ""
	if id, ok := s.Key.(*ast.Ident); ok && id.Name != "_" {
		keyName = id.Name
	}
	valName := ""
	if id, ok := s.Value.(*ast.Ident); ok && id.Name != "_" {
		valName = id.Name
	}
	vn := keyName
	if vn == "" {
		vn = valName
	}
	if _, isMap := xt.Underlying().(*types.Map); isMap {
		return x.rangeMap(s, st, label)
	}
	lc, ord := x.loopContract(s, vn)
	bodyPos := s.Body.Lbrace
	// the ranged-over value is evaluated once
	var n *Term
	var coll Val
	isInt := false
	switch u := xt.Underlying().(type) {
	case *types.Slice:
		coll = x.expr(s.X, st)
		n = slLen(coll.T)
	case *types.Basic:
		if u.Info()&types.IsInteger != 0 {
			isInt = true
			n = x.expr(s.X, st).T
		}
	}
	if n == nil {
		x.unsupported(s, "range over unsupported type %s", xt)
	}
	nName := x.sym.Fresh("rangelen", SInt)
	st.assume(Eq(nName, n))
	// hidden index
	// (named _k<ordinal>, so that invariants of nested loops can refer to
	// the position of an enclosing range loop; its own invariants say _k)
	idxObj := types.NewVar(token.NoPos, nil, fmt.Sprintf("_k%d", ord), types.Typ[types.Int])
	st.vars[idxObj] = IntLit(0)
	extra := func(s *State) map[string]Val {
		return map[string]Val{"_k": {T: s.vars[idxObj], Ty: tyInt}, "_n": {T: nName, Ty: tyInt}}
	}
	var keyObj, valObj *types.Var
	if keyName != "" {
		if s.Tok == token.DEFINE {
			keyObj = x.info().Defs[s.Key.(*ast.Ident)].(*types.Var)
		} else {
			keyObj = x.info().ObjectOf(s.Key.(*ast.Ident)).(*types.Var)
		}
	}
	if valName != "" {
		if s.Tok == token.DEFINE {
			valObj = x.info().Defs[s.Value.(*ast.Ident)].(*types.Var)
		} else {
			valObj = x.info().ObjectOf(s.Value.(*ast.Ident)).(*types.Var)
		}
	}
	if (keyObj != nil && x.heapified[keyObj]) || (valObj != nil && x.heapified[valObj]) {
		x.unsupported(s, "address-taken range variable")
	}
	// In invariants the key variable (if any) denotes the index of the
	// next iteration, like _k.
	bindKV := func(s *State, withVal bool) {
		if keyObj != nil {
			s.vars[keyObj] = s.vars[idxObj]
		}
		if valObj != nil && withVal && !isInt {
			_, h := x.elemHeapOf(s, coll.Ty.Elem)
			s.vars[valObj] = Select(s.sel(h, slReg(coll.T)), IdxAdd(slOff(coll.T), s.vars[idxObj]))
			s.assume(x.typeInv(s.vars[valObj], coll.Ty.Elem, s.alloc))
		}
	}
	if valObj != nil {
		if _, ok := st.vars[valObj]; !ok {
			st.vars[valObj] = x.zero(x.w.goTy(valObj.Type(), x.model.BV))
		}
	}
	bindKV(st, false)
	env := x.invEnv(st, bodyPos, extra(st))
	invs := x.usableInvs(lc, env, ord)
	for i, inv := range invs {
		x.oblige(st, "loop", fmt.Sprintf("%d:init:%s", ord, invLabel(inv, i)), env.evalBool(inv.E), s.Pos(), inv.Src)
	}
	preLoop := st.clone()
	x.havocLoop(st, lc, ord, bodyPos, s.Body)
	k := x.sym.Fresh("k", SInt)
	st.vars[idxObj] = k
	st.assume(And(Le(IntLit(0), k), Le(k, nName)))
	if valObj != nil {
		// value variable holds the previous element (or zero): unknown
		st.vars[valObj] = x.sym.Fresh(valObj.Name(), x.w.sortOf(x.w.goTy(valObj.Type(), x.model.BV), x.model))
	}
	bindKV(st, false)
	env = x.invEnv(st, bodyPos, extra(st))
	x.assumeInvs(st, lc, env, invs)
	head := st.clone()
	exitSt := st.clone()
	exitSt.assume(Eq(k, nName))
	bodySt := st
	bodySt.assume(Lt(k, nName))
	bindKV(bodySt, true)
	pop := x.pushLoopScope(lc, ord, preLoop, bodyPos)
	bo := x.block(s.Body.List, bodySt)
	pop()
	var out outcome
	ends := []*State{}
	if bo.normal != nil {
		ends = append(ends, bo.normal)
	}
	ends = append(ends, bo.continues[""]...)
	delete(bo.continues, "")
	if label != "" {
		ends = append(ends, bo.continues[label]...)
		delete(bo.continues, label)
	}
	exits := []*State{exitSt}
	exits = append(exits, bo.breaks[""]...)
	delete(bo.breaks, "")
	if label != "" {
		exits = append(exits, bo.breaks[label]...)
		delete(bo.breaks, label)
	}
	out.absorb(bo)
	if end := x.mergeAll(ends); end != nil {
		x.anchoredAsserts(fmt.Sprintf("loop%d:end", ord), ord, end, bodyPos)
		end.vars[idxObj] = Add(k, IntLit(1))
		bindKV(end, false)
		env := x.invEnv(end, bodyPos, extra(end))
		for i, inv := range invs {
			x.oblige(end, "loop", fmt.Sprintf("%d:pres:%s", ord, invLabel(inv, i)), env.evalBool(inv.E), s.Pos(), inv.Src)
		}
	}
	_ = head
	out.normal = x.mergeAll(exits)
	if out.normal != nil {
		delete(out.normal.vars, idxObj)
	}
	x.exitAsserts(ord, out.normal, s.End())
	return out
}

// exitAsserts: contract assertions anchored at the exit of loop ord
// (`assert @loopN:exit [label] e`). A label starting with "assumed" makes
// it an assumption instead, which is recorded as such.
func (x *Exec) exitAsserts(ord int, st *State, pos token.Pos) {
	x.anchoredAsserts(fmt.Sprintf("loop%d:exit", ord), ord, st, pos)
}

// anchoredAsserts: `assert @<anchor> [label] e [by lemma(args), …]` clauses
// for the anchors loopN:exit (where the loop is left) and loopN:end (end of
// an arbitrary iteration's body, before the invariant is re-established).
func (x *Exec) anchoredAsserts(anchor string, ord int, st *State, pos token.Pos) {
	fr := x.cur()
	if st == nil || fr.fc == nil {
		return
	}
	// snapshots taken here: the value (for a slice: its contents as a
	// sequence) is frozen and can be named in later assertions
	for _, sn := range fr.fc.Snapshots {
		if sn.Anchor != anchor {
			continue
		}
		env := x.invEnv(st, pos, nil)
		v := env.eval(sn.E)
		if v.Ty != nil && v.Ty.K == TSlice {
			v = env.asSeq(sn.E, v)
		}
		if fr.ghosts == nil {
			fr.ghosts = map[string]Val{}
		}
		fr.ghosts[sn.Name] = v
	}
	for i, a := range fr.fc.Asserts {
		if a.Anchor != anchor {
			continue
		}
		env := x.invEnv(st, pos, nil)
		label := a.Cl.Label
		if label == "" {
			label = fmt.Sprintf("a%d", i+1)
		}
		t := env.evalBool(a.Cl.E)
		if a.Cl.Assumed {
			x.noteTrusted(fmt.Sprintf("ASSUMED inside %s at %s, without proof: [%s] %s", fr.key, anchor, label, a.Cl.Src))
			st.assume(t)
			continue
		}
		ost := st
		goal := t
		if len(a.By) > 0 {
			// ground instances of the named lemmas (each lemma is proved by
			// its own obligations): hypotheses of this assertion only. For
			// an assertion `forall v.. :: body` the lemma arguments may
			// mention v..: the quantifier is opened with fresh constants
			// and the lemma applied to those.
			ost = st.clone()
			benv, g2 := x.openForall(env, a.Cl.E)
			if g2 != nil {
				goal = g2
			}
			for _, call := range a.By {
				ost.assume(x.lemmaInstance(benv, call))
			}
		}
		x.oblige(ost, "assert", fmt.Sprintf("%s@%s", label, anchor), goal, pos, a.Cl.Src)
		st.assume(t)
	}
}

// assumeInvs assumes a loop's invariants at the head of an arbitrary
// iteration and remembers which path-condition entries are invariant facts.
// With `loop N forget` the invariant facts of enclosing loops are dropped
// first: the contract declares this loop's invariant self-contained, and
// dropping hypotheses is always sound. It keeps the solver's context small
// in deep loop nests (stale facts about superseded heap versions).
func (x *Exec) assumeInvs(st *State, lc *LoopContract, env *CEnv, invs []Clause) {
	if x.invFacts == nil {
		x.invFacts = map[*Term]bool{}
	}
	if lc.Forget {
		var keep []*Term
		for _, t := range st.pc {
			if !x.invFacts[t] {
				keep = append(keep, t)
			}
		}
		st.pc = keep
	}
	n := len(st.pc)
	for _, inv := range invs {
		st.assume(env.evalBool(inv.E))
	}
	for _, t := range st.pc[n:] {
		x.invFacts[t] = true
	}
}

// openForall: for e = `forall v in lo..hi, w T :: body` returns an
// environment in which v, w are fresh constants and the ground goal
// (ranges => body); for any other expression (env, nil).
func (x *Exec) openForall(env *CEnv, e *CExpr) (*CEnv, *Term) {
	if e.Kind != "quant" || e.Op != "forall" {
		return env, nil
	}
	cur := env
	var ranges []*Term
	for _, v := range e.Vars {
		ty := env.cty(v.Type)
		c := x.sym.Fresh("sk_"+v.Name, x.w.sortOf(ty, x.model))
		if v.Lo != nil {
			ranges = append(ranges, Le(cur.eval(v.Lo).T, c), Lt(c, cur.eval(v.Hi).T))
		}
		cur = cur.withBound(v.Name, Val{T: c, Ty: ty})
	}
	return cur, Implies(And(ranges...), cur.evalBool(e.Args[0]))
}

// exprText: source-like text of a callee expression (a.b.c).
func exprText(e ast.Expr) string {
	switch t := e.(type) {
	case *ast.Ident:
		return t.Name
	case *ast.SelectorExpr:
		return exprText(t.X) + "." + t.Sel.Name
	case *ast.ParenExpr:
		return exprText(t.X)
	}
	return "?"
}
