package main

import (
	"go/ast"
	"go/types"
)

// Maps: a map value is an Int handle m; two heaps per map type hold its
// contents:  MV_<type>[m][key] (value) and MP_<type>[m][key] (present).
// Keys are ints or structs of ints (datatypes); iteration order of range is
// arbitrary (loops over maps are cut at invariants that must hold for any
// order).

func (x *Exec) mapHeapName(ty *Ty) string {
	if mt, ok := ty.Go.Underlying().(*types.Map); ok {
		return "MV_" + sanitize(mt.String())
	}
	return "MV_" + sanitize(typeName(ty.Go))
}

func (x *Exec) mapHeaps(st *State, mt *types.Map) (string, *Term, string, *Term, *Ty, *Ty) {
	kt := x.w.goTy(mt.Key(), x.model.BV)
	vt := x.w.goTy(mt.Elem(), x.model.BV)
	ks := x.w.sortOf(kt, x.model)
	vs := x.w.sortOf(vt, x.model)
	tag := sanitize(mt.String())
	vn, pn := "MV_"+tag, "MP_"+tag
	vh := x.heap(st, vn, ArrSort(SInt, ArrSort(ks, vs)))
	ph := x.heap(st, pn, ArrSort(SInt, ArrSort(ks, SBool)))
	return vn, vh, pn, ph, kt, vt
}

func (x *Exec) mapGet(st *State, m, k Val, mt *types.Map) Val {
	_, vh, _, ph, kt, vt := x.mapHeaps(st, mt)
	key := x.coerceTo(k, kt)
	present := Select(st.sel(ph, m.T), key)
	val := Select(st.sel(vh, m.T), key)
	return Val{T: Ite(present, val, x.zero(vt)), Ty: vt}
}

func (x *Exec) mapHas(st *State, m, k Val, mt *types.Map) *Term {
	_, _, _, ph, kt, _ := x.mapHeaps(st, mt)
	return Select(st.sel(ph, m.T), x.coerceTo(k, kt))
}

func (x *Exec) mapLenHeap(st *State, mt *types.Map) (string, *Term) {
	n := "ML_" + sanitize(mt.String())
	return n, x.heap(st, n, ArrSort(SInt, SInt))
}

func (x *Exec) mapSet(st *State, m, k, v Val, mt *types.Map) {
	vn, vh, pn, ph, kt, vt := x.mapHeaps(st, mt)
	key := x.coerceTo(k, kt)
	x.recordWrite(st, vn, m.T, nil, nil, nil, nil)
	ln, lh := x.mapLenHeap(st, mt)
	was := Select(st.sel(ph, m.T), key)
	st.heaps[ln] = Store(lh, m.T, Ite(was, st.sel(lh, m.T), Add(st.sel(lh, m.T), IntLit(1))))
	st.heaps[vn] = Store(vh, m.T, Store(st.sel(vh, m.T), key, x.coerceTo(v, vt)))
	st.heaps[pn] = Store(ph, m.T, Store(st.sel(ph, m.T), key, tTrue))
}

func (x *Exec) mapDelete(st *State, m, k Val, mt *types.Map) {
	_, _, pn, ph, kt, _ := x.mapHeaps(st, mt)
	key := x.coerceTo(k, kt)
	x.recordWrite(st, pn, m.T, nil, nil, nil, nil)
	ln, lh := x.mapLenHeap(st, mt)
	was := Select(st.sel(ph, m.T), key)
	st.heaps[ln] = Store(lh, m.T, Ite(was, Sub(st.sel(lh, m.T), IntLit(1)), st.sel(lh, m.T)))
	st.heaps[pn] = Store(ph, m.T, Store(st.sel(ph, m.T), key, tFalse))
}

func (x *Exec) mapLen(st *State, m Val, mt *types.Map) *Term {
	_, lh := x.mapLenHeap(st, mt)
	t := st.sel(lh, m.T)
	st.assume(Ge(t, IntLit(0)))
	return t
}

func (x *Exec) newMap(st *State, ty *Ty, mt *types.Map) Val {
	vn, vh, pn, ph, kt, vt := x.mapHeaps(st, mt)
	ks := x.w.sortOf(kt, x.model)
	vs := x.w.sortOf(vt, x.model)
	m := st.bump()
	emptyP := mk("(as const "+string(ArrSort(ks, SBool))+")", ArrSort(ks, SBool), tFalse)
	emptyV := mk("(as const "+string(ArrSort(ks, vs))+")", ArrSort(ks, vs), x.zero(vt))
	st.heaps[vn] = Store(vh, m, emptyV)
	st.heaps[pn] = Store(ph, m, emptyP)
	ln, lh := x.mapLenHeap(st, mt)
	st.heaps[ln] = Store(lh, m, IntLit(0))
	return Val{T: m, Ty: ty}
}

func (x *Exec) rangeMap(s *ast.RangeStmt, st *State, label string) outcome {
	x.unsupported(s, "range over maps is outside the translated subset")
	panic("unreachable")
}
