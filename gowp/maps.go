package main

import "go/types"

// Maps are not yet modelled; every operation leaves the verifiable subset.

func (x *Exec) mapHeapName(ty *Ty) string { return "M_" + sanitize(typeName(ty.Go)) }

func (x *Exec) mapGet(st *State, m, k Val, mt *types.Map) Val {
	panic(engineError{"maps are outside the translated subset"})
}
func (x *Exec) mapHas(st *State, m, k Val, mt *types.Map) *Term {
	panic(engineError{"maps are outside the translated subset"})
}
func (x *Exec) mapSet(st *State, m, k, v Val, mt *types.Map) {
	panic(engineError{"maps are outside the translated subset"})
}
func (x *Exec) mapDelete(st *State, m, k Val, mt *types.Map) {
	panic(engineError{"maps are outside the translated subset"})
}
func (x *Exec) mapLen(st *State, m Val, mt *types.Map) *Term {
	panic(engineError{"maps are outside the translated subset"})
}
func (x *Exec) newMap(st *State, ty *Ty, mt *types.Map) Val {
	panic(engineError{"maps are outside the translated subset"})
}
func (x *Exec) rangeMap(s interface{}, st *State, label string) outcome {
	panic(engineError{"maps are outside the translated subset"})
}
