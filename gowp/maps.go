package main

import (
	"fmt"
	"go/ast"
	"go/token"
	"go/types"
)

// Maps: a map value is an Int handle m; two heaps per map type hold its
// contents:  MV_<type>[m][key] (value) and MP_<type>[m][key] (present).
// Keys are ints or structs of ints (datatypes); iteration order of range is
// arbitrary (loops over maps are cut at invariants that must hold for any
// order).

func (x *Exec) mapHeapName(ty *Ty) string {
	if mt, ok := ty.Go.Underlying().(*types.Map); ok {
		return "MV_" + sanitize(mt.String())
	}
	return "MV_" + sanitize(typeName(ty.Go))
}

func (x *Exec) mapHeaps(st *State, mt *types.Map) (string, *Term, string, *Term, *Ty, *Ty) {
	kt := x.w.goTy(mt.Key(), x.model.BV)
	vt := x.w.goTy(mt.Elem(), x.model.BV)
	ks := x.w.sortOf(kt, x.model)
	vs := x.w.sortOf(vt, x.model)
	tag := sanitize(mt.String())
	vn, pn := "MV_"+tag, "MP_"+tag
	vh := x.heap(st, vn, ArrSort(SInt, ArrSort(ks, vs)))
	ph := x.heap(st, pn, ArrSort(SInt, ArrSort(ks, SBool)))
	return vn, vh, pn, ph, kt, vt
}

func (x *Exec) mapGet(st *State, m, k Val, mt *types.Map) Val {
	_, vh, _, ph, kt, vt := x.mapHeaps(st, mt)
	key := x.coerceTo(k, kt)
	present := Select(st.sel(ph, m.T), key)
	val := Select(st.sel(vh, m.T), key)
	return Val{T: Ite(present, val, x.zero(vt)), Ty: vt}
}

func (x *Exec) mapHas(st *State, m, k Val, mt *types.Map) *Term {
	_, _, _, ph, kt, _ := x.mapHeaps(st, mt)
	return Select(st.sel(ph, m.T), x.coerceTo(k, kt))
}

func (x *Exec) mapLenHeap(st *State, mt *types.Map) (string, *Term) {
	n := "ML_" + sanitize(mt.String())
	return n, x.heap(st, n, ArrSort(SInt, SInt))
}

func (x *Exec) mapSet(st *State, m, k, v Val, mt *types.Map) {
	vn, vh, pn, ph, kt, vt := x.mapHeaps(st, mt)
	key := x.coerceTo(k, kt)
	x.recordWrite(st, vn, m.T, nil, nil, nil, nil)
	ln, lh := x.mapLenHeap(st, mt)
	was := Select(st.sel(ph, m.T), key)
	st.heaps[ln] = Store(lh, m.T, Ite(was, st.sel(lh, m.T), Add(st.sel(lh, m.T), IntLit(1))))
	st.heaps[vn] = Store(vh, m.T, Store(st.sel(vh, m.T), key, x.coerceTo(v, vt)))
	st.heaps[pn] = Store(ph, m.T, Store(st.sel(ph, m.T), key, tTrue))
}

func (x *Exec) mapDelete(st *State, m, k Val, mt *types.Map) {
	_, _, pn, ph, kt, _ := x.mapHeaps(st, mt)
	key := x.coerceTo(k, kt)
	x.recordWrite(st, pn, m.T, nil, nil, nil, nil)
	ln, lh := x.mapLenHeap(st, mt)
	was := Select(st.sel(ph, m.T), key)
	st.heaps[ln] = Store(lh, m.T, Ite(was, Sub(st.sel(lh, m.T), IntLit(1)), st.sel(lh, m.T)))
	st.heaps[pn] = Store(ph, m.T, Store(st.sel(ph, m.T), key, tFalse))
}

func (x *Exec) mapLen(st *State, m Val, mt *types.Map) *Term {
	_, lh := x.mapLenHeap(st, mt)
	t := st.sel(lh, m.T)
	st.assume(Ge(t, IntLit(0)))
	return t
}

func (x *Exec) newMap(st *State, ty *Ty, mt *types.Map) Val {
	vn, vh, pn, ph, kt, vt := x.mapHeaps(st, mt)
	ks := x.w.sortOf(kt, x.model)
	vs := x.w.sortOf(vt, x.model)
	m := st.bump()
	emptyP := mk("(as const "+string(ArrSort(ks, SBool))+")", ArrSort(ks, SBool), tFalse)
	emptyV := mk("(as const "+string(ArrSort(ks, vs))+")", ArrSort(ks, vs), x.zero(vt))
	st.heaps[vn] = Store(vh, m, emptyV)
	st.heaps[pn] = Store(ph, m, emptyP)
	ln, lh := x.mapLenHeap(st, mt)
	st.heaps[ln] = Store(lh, m, IntLit(0))
	return Val{T: m, Ty: ty}
}

// rangeMap: for key := range m { body }.
//
// The idiom `for k := range m { delete(m, k) }` is the map-clearing loop (the
// Go compiler recognises it as such): m becomes empty.
//
// Otherwise the loop is cut at its invariant like every other loop. The
// iteration order is arbitrary, so a ghost set of visited keys (`visited(key)`
// in the invariants of this loop, `visited(key, N)` for an enclosing loop N)
// takes the place of the index: each iteration picks an arbitrary key that
// is present in m and not yet visited; the loop is left when every key present
// in m is visited. That exit fact needs the key set of m to be the same at
// the end of the body as at its beginning (Go leaves it unspecified whether
// keys inserted during the iteration are produced), which is an obligation
// (`safe:rangekeys`). Values stored under existing keys may change.
func (x *Exec) rangeMap(s *ast.RangeStmt, st *State, label string) outcome {
	mt := x.info().Types[s.X].Type.Underlying().(*types.Map)
	if id, ok := s.Value.(*ast.Ident); s.Value != nil && !(ok && id.Name == "_") {
		x.unsupported(s, "range over a map with a value variable is not supported")
	}
	keyName := ""
	if id, ok := s.Key.(*ast.Ident); ok && id.Name != "_" {
		keyName = id.Name
	}
	m := x.expr(s.X, st)
	_, _, pn, ph, kt, _ := x.mapHeaps(st, mt)
	ks := x.w.sortOf(kt, x.model)
	if x.isMapClear(s, keyName) {
		x.cur().loopOrd++
		x.recordWrite(st, pn, m.T, nil, nil, nil, nil)
		ln, lh := x.mapLenHeap(st, mt)
		st.heaps[pn] = Store(ph, m.T, mk("(as const "+string(ArrSort(ks, SBool))+")", ArrSort(ks, SBool), tFalse))
		st.heaps[ln] = Store(lh, m.T, IntLit(0))
		return outcome{normal: st}
	}
	lc, ord := x.loopContract(s, keyName)
	bodyPos := s.Body.Lbrace
	var keyObj *types.Var
	if keyName != "" {
		if s.Tok == token.DEFINE {
			keyObj = x.info().Defs[s.Key.(*ast.Ident)].(*types.Var)
		} else {
			keyObj = x.info().ObjectOf(s.Key.(*ast.Ident)).(*types.Var)
		}
		if x.heapified[keyObj] {
			x.unsupported(s, "address-taken range variable")
		}
	}
	seenSort := ArrSort(ks, SBool)
	seenObj := types.NewVar(token.NoPos, nil, fmt.Sprintf("_seen%d", ord), types.Typ[types.Bool])
	seenTy := &Ty{K: TOpaque, Name: "seen"}
	st.vars[seenObj] = mk("(as const "+string(seenSort)+")", seenSort, tFalse)
	extra := func(s *State) map[string]Val {
		return map[string]Val{"_seen": {T: s.vars[seenObj], Ty: seenTy}}
	}
	bindKey := func(s *State, t *Term) {
		if keyObj != nil {
			s.vars[keyObj] = t
		}
	}
	arb := x.sym.Fresh("mapkey", ks)
	st.assume(x.typeInv(arb, kt, st.alloc))
	bindKey(st, arb)
	env := x.invEnv(st, bodyPos, extra(st))
	invs := x.usableInvs(lc, env, ord)
	for i, inv := range invs {
		x.oblige(st, "loop", fmt.Sprintf("%d:init:%s", ord, invLabel(inv, i)), env.evalBool(inv.E), s.Pos(), inv.Src)
	}
	preLoop := st.clone()
	x.havocLoop(st, lc, ord, bodyPos, s.Body)
	seen := x.sym.Fresh("seen", seenSort)
	st.vars[seenObj] = seen
	key := x.sym.Fresh("mapkey", ks)
	st.assume(x.typeInv(key, kt, st.alloc))
	bindKey(st, key)
	env = x.invEnv(st, bodyPos, extra(st))
	x.assumeInvs(st, lc, env, invs)
	present := func(s *State) *Term {
		_, _, _, ph, _, _ := x.mapHeaps(s, mt)
		return s.sel(ph, m.T)
	}
	headKeys := present(st)
	exitSt := st.clone()
	{
		b := BoundVar{Name: x.freshBound("mk"), Sort: ks}
		bt := mk(b.Name, ks)
		exitSt.assume(Forall([]BoundVar{b}, Implies(Select(headKeys, bt), Select(seen, bt)), Select(headKeys, bt)))
	}
	bodySt := st
	bodySt.assume(Select(headKeys, key))
	bodySt.assume(Not(Select(seen, key)))
	pop := x.pushLoopScope(lc, ord, preLoop, bodyPos)
	bo := x.block(s.Body.List, bodySt)
	pop()
	var out outcome
	ends := []*State{}
	if bo.normal != nil {
		ends = append(ends, bo.normal)
	}
	ends = append(ends, bo.continues[""]...)
	delete(bo.continues, "")
	if label != "" {
		ends = append(ends, bo.continues[label]...)
		delete(bo.continues, label)
	}
	exits := []*State{exitSt}
	exits = append(exits, bo.breaks[""]...)
	delete(bo.breaks, "")
	if label != "" {
		exits = append(exits, bo.breaks[label]...)
		delete(bo.breaks, label)
	}
	out.absorb(bo)
	if end := x.mergeAll(ends); end != nil {
		x.anchoredAsserts(fmt.Sprintf("loop%d:end", ord), ord, end, bodyPos)
		x.safe(end, "rangekeys", Eq(present(end), headKeys), s)
		end.vars[seenObj] = Store(seen, key, tTrue)
		arb2 := x.sym.Fresh("mapkey", ks)
		end.assume(x.typeInv(arb2, kt, end.alloc))
		bindKey(end, arb2)
		env := x.invEnv(end, bodyPos, extra(end))
		for i, inv := range invs {
			x.oblige(end, "loop", fmt.Sprintf("%d:pres:%s", ord, invLabel(inv, i)), env.evalBool(inv.E), s.Pos(), inv.Src)
		}
	}
	out.normal = x.mergeAll(exits)
	if out.normal != nil {
		delete(out.normal.vars, seenObj)
	}
	x.exitAsserts(ord, out.normal, s.End())
	return out
}

// isMapClear: `for k := range m { delete(m, k) }` with m a plain expression.
func (x *Exec) isMapClear(s *ast.RangeStmt, keyName string) bool {
	if keyName == "" || len(s.Body.List) != 1 {
		return false
	}
	es, ok := s.Body.List[0].(*ast.ExprStmt)
	if !ok {
		return false
	}
	call, ok := es.X.(*ast.CallExpr)
	if !ok || len(call.Args) != 2 {
		return false
	}
	if id, ok := call.Fun.(*ast.Ident); !ok || id.Name != "delete" {
		return false
	} else if _, isB := x.info().ObjectOf(id).(*types.Builtin); !isB {
		return false
	}
	if k, ok := call.Args[1].(*ast.Ident); !ok || k.Name != keyName {
		return false
	}
	return exprText(call.Args[0]) == exprText(s.X) && isPlainRef(s.X)
}

func isPlainRef(e ast.Expr) bool {
	switch e := e.(type) {
	case *ast.Ident:
		return true
	case *ast.SelectorExpr:
		return isPlainRef(e.X)
	case *ast.ParenExpr:
		return isPlainRef(e.X)
	}
	return false
}
