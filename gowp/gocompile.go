package main

// Compilation of contract expressions to Go source, for replay tests.

import (
	"fmt"
	"go/types"
	"strings"
)

type gkind int

const (
	kInt gkind = iota
	kFloat
	kBool
	kU32
	kSeq
	kOther
)

type gval struct {
	code string
	k    gkind
	t    types.Type // Go type when known
	ek   gkind      // element kind for kSeq
	et   types.Type
}

type goCompiler struct {
	rc       *replayCtx
	x        *Exec
	sig      *types.Signature
	pkg      *types.Package
	results  []string
	resNames []string
	lets     []LetDef
	depth    int
}

func kindOfType(t types.Type) gkind {
	switch u := t.Underlying().(type) {
	case *types.Basic:
		switch {
		case u.Info()&types.IsBoolean != 0:
			return kBool
		case u.Kind() == types.Uint32:
			return kU32
		case u.Info()&types.IsInteger != 0:
			return kInt
		case u.Info()&types.IsFloat != 0:
			return kFloat
		}
	case *types.Slice:
		return kSeq
	}
	return kOther
}

func (g *goCompiler) fromType(code string, t types.Type) gval {
	v := gval{code: code, k: kindOfType(t), t: t}
	if s, ok := t.Underlying().(*types.Slice); ok {
		v.ek = kindOfType(s.Elem())
		v.et = s.Elem()
	}
	return v
}

func (g *goCompiler) typeStr(t types.Type) string { return types.TypeString(t, g.rc.qual) }

func kindGoType(k gkind) string {
	switch k {
	case kInt:
		return "int"
	case kFloat:
		return "float64"
	case kBool:
		return "bool"
	case kU32:
		return "uint32"
	}
	return "interface{}"
}

func (g *goCompiler) compileTop(e *CExpr, old bool) (code string, k gkind, err error) {
	defer func() {
		if r := recover(); r != nil {
			err = fmt.Errorf("%v", r)
		}
	}()
	v := g.compile(e, old, map[string]gval{})
	return v.code, v.k, nil
}

func (g *goCompiler) fail(f string, a ...any) { panic(fmt.Sprintf(f, a...)) }

func (g *goCompiler) toFloat(v gval) string {
	if v.k == kFloat {
		return v.code
	}
	if v.k == kInt || v.k == kU32 {
		return "float64(" + v.code + ")"
	}
	g.fail("not numeric: %s", v.code)
	return ""
}

func (g *goCompiler) paramVar(name string) *types.Var {
	if r := g.sig.Recv(); r != nil && r.Name() == name {
		return r
	}
	for i := 0; i < g.sig.Params().Len(); i++ {
		if g.sig.Params().At(i).Name() == name {
			return g.sig.Params().At(i)
		}
	}
	return nil
}

func (g *goCompiler) compile(e *CExpr, old bool, bound map[string]gval) gval {
	switch e.Kind {
	case "paren":
		v := g.compile(e.Args[0], old, bound)
		v.code = "(" + v.code + ")"
		return v
	case "int":
		return gval{code: e.Name, k: kInt}
	case "float":
		return gval{code: "float64(" + e.Name + ")", k: kFloat}
	case "bool":
		return gval{code: e.Name, k: kBool}
	case "old":
		return g.compile(e.Args[0], true, bound)
	case "id":
		if v, ok := bound[e.Name]; ok {
			return v
		}
		for _, ld := range g.lets {
			if ld.Name == e.Name {
				v := g.compile(ld.E, true, map[string]gval{})
				v.code = "(" + v.code + ")"
				return v
			}
		}
		for i, rn := range g.resNames {
			if rn == e.Name || (e.Name == "result" && len(g.resNames) == 1) {
				return g.fromType(g.results[i], g.sig.Results().At(i).Type())
			}
		}
		if pv := g.paramVar(e.Name); pv != nil {
			n := e.Name
			if old {
				n = "old_" + n
			}
			return g.fromType(n, pv.Type())
		}
		switch e.Name {
		case "nil":
			return gval{code: "nil", k: kOther}
		case "inf":
			return gval{code: "math.Inf(1)", k: kFloat}
		case "ninf":
			return gval{code: "math.Inf(-1)", k: kFloat}
		case "nan":
			return gval{code: "math.NaN()", k: kFloat}
		}
		if o := g.pkg.Scope().Lookup(e.Name); o != nil {
			switch o.(type) {
			case *types.Const, *types.Var:
				return g.fromType(e.Name, o.Type())
			}
		}
		g.fail("unknown identifier %s", e.Name)
	case "un":
		v := g.compile(e.Args[0], old, bound)
		switch e.Op {
		case "!":
			return gval{code: "!(" + v.code + ")", k: kBool}
		case "-":
			return gval{code: "(-(" + v.code + "))", k: v.k}
		case "^":
			return gval{code: "(^(" + v.code + "))", k: v.k}
		}
	case "star":
		v := g.compile(e.Args[0], old, bound)
		if p, ok := v.t.Underlying().(*types.Pointer); ok {
			return g.fromType("(*"+v.code+")", p.Elem())
		}
		g.fail("deref of non-pointer")
	case "field":
		// pkg-qualified identifier
		if e.Args[0].Kind == "id" {
			if _, isB := bound[e.Args[0].Name]; !isB && g.paramVar(e.Args[0].Name) == nil {
				for _, p := range g.x.eng.pkgs {
					if p.Types.Name() == e.Args[0].Name {
						if o := p.Types.Scope().Lookup(e.Name); o != nil {
							if p.Types == g.pkg {
								return g.fromType(e.Name, o.Type())
							}
							g.rc.imports[p.Types.Path()] = true
							return g.fromType(p.Types.Name()+"."+e.Name, o.Type())
						}
					}
				}
			}
		}
		v := g.compile(e.Args[0], old, bound)
		t := v.t
		if t == nil {
			g.fail("field of untyped value")
		}
		if p, ok := t.Underlying().(*types.Pointer); ok {
			t = p.Elem()
		}
		st, ok := t.Underlying().(*types.Struct)
		if !ok {
			g.fail("field of non-struct")
		}
		for i := 0; i < st.NumFields(); i++ {
			if st.Field(i).Name() == e.Name {
				return g.fromType(v.code+"."+e.Name, st.Field(i).Type())
			}
		}
		g.fail("no field %s", e.Name)
	case "index":
		a := g.compile(e.Args[0], old, bound)
		i := g.compile(e.Args[1], old, bound)
		if a.k != kSeq {
			g.fail("index of non-slice")
		}
		r := gval{code: a.code + "[" + i.code + "]", k: a.ek, t: a.et}
		if a.et != nil {
			r = g.fromType(r.code, a.et)
		}
		return r
	case "slice":
		a := g.compile(e.Args[0], old, bound)
		lo, hi := "", ""
		if e.Args[1] != nil {
			lo = g.compile(e.Args[1], old, bound).code
		}
		if e.Args[2] != nil {
			hi = g.compile(e.Args[2], old, bound).code
		}
		a.code = a.code + "[" + lo + ":" + hi + "]"
		return a
	case "update":
		a := g.compile(e.Args[0], old, bound)
		i := g.compile(e.Args[1], old, bound)
		v := g.compile(e.Args[2], old, bound)
		if a.t == nil {
			g.fail("update of untyped sequence")
		}
		ts := g.typeStr(a.t)
		a.code = fmt.Sprintf("func() %s { c := append(%s(nil), %s...); c[%s] = %s; return c }()", ts, ts, a.code, i.code, v.code)
		return a
	case "cond":
		c := g.compile(e.Args[0], old, bound)
		a := g.compile(e.Args[1], old, bound)
		b := g.compile(e.Args[2], old, bound)
		k := a.k
		ac, bc := a.code, b.code
		if a.k != b.k && (a.k == kFloat || b.k == kFloat) {
			k = kFloat
			ac, bc = g.toFloat(a), g.toFloat(b)
		}
		ts := kindGoType(k)
		if k == kOther || k == kSeq {
			if a.t == nil {
				g.fail("conditional of untyped values")
			}
			ts = g.typeStr(a.t)
		}
		return gval{code: fmt.Sprintf("func() %s { if %s { return %s }; return %s }()", ts, c.code, ac, bc), k: k, t: a.t, ek: a.ek, et: a.et}
	case "bin":
		return g.compileBin(e, old, bound)
	case "quant":
		return g.compileQuant(e, old, bound)
	case "call":
		return g.compileCall(e, old, bound)
	}
	g.fail("unsupported expression kind %s", e.Kind)
	return gval{}
}

func (g *goCompiler) compileBin(e *CExpr, old bool, bound map[string]gval) gval {
	switch e.Op {
	case "&&", "||":
		a := g.compile(e.Args[0], old, bound)
		b := g.compile(e.Args[1], old, bound)
		return gval{code: "(" + a.code + " " + e.Op + " " + b.code + ")", k: kBool}
	case "==>":
		a := g.compile(e.Args[0], old, bound)
		b := g.compile(e.Args[1], old, bound)
		return gval{code: "(!(" + a.code + ") || (" + b.code + "))", k: kBool}
	case "<==>":
		a := g.compile(e.Args[0], old, bound)
		b := g.compile(e.Args[1], old, bound)
		return gval{code: "((" + a.code + ") == (" + b.code + "))", k: kBool}
	}
	a := g.compile(e.Args[0], old, bound)
	b := g.compile(e.Args[1], old, bound)
	switch e.Op {
	case "==", "!=", "<", "<=", ">", ">=":
		neg := ""
		if e.Op == "!=" {
			neg = "!"
		}
		switch {
		case a.k == kFloat || b.k == kFloat:
			fa, fb := g.toFloat(a), g.toFloat(b)
			switch e.Op {
			case "==", "!=":
				return gval{code: neg + "gowpApprox(" + fa + ", " + fb + ")", k: kBool}
			case "<=", ">=":
				return gval{code: "(" + fa + " " + e.Op + " " + fb + " || gowpApprox(" + fa + ", " + fb + "))", k: kBool}
			default:
				return gval{code: "(" + fa + " " + e.Op + " " + fb + ")", k: kBool}
			}
		case (a.k == kOther || a.k == kSeq || b.k == kOther || b.k == kSeq) && (e.Op == "==" || e.Op == "!="):
			if a.code == "nil" || b.code == "nil" {
				return gval{code: "(" + a.code + " " + e.Op + " " + b.code + ")", k: kBool}
			}
			if a.k == kSeq || b.k == kSeq {
				return gval{code: neg + "gowpSeqEq(" + a.code + ", " + b.code + ")", k: kBool}
			}
			return gval{code: neg + "reflect.DeepEqual(" + a.code + ", " + b.code + ")", k: kBool}
		case a.k == kBool && b.k == kBool:
			return gval{code: "((" + a.code + ") " + e.Op + " (" + b.code + "))", k: kBool}
		default:
			ac, bc := a.code, b.code
			if a.k == kU32 && b.k == kInt {
				bc = "uint32(" + bc + ")"
			} else if a.k == kInt && b.k == kU32 {
				ac = "uint32(" + ac + ")"
			} else if a.t != nil && b.t != nil && !types.Identical(a.t, b.t) {
				ac, bc = "int("+ac+")", "int("+bc+")"
			} else if a.t != nil && b.t == nil && a.k == kInt {
				ac = "int(" + ac + ")"
			} else if b.t != nil && a.t == nil && b.k == kInt {
				bc = "int(" + bc + ")"
			}
			return gval{code: "(" + ac + " " + e.Op + " " + bc + ")", k: kBool}
		}
	}
	// arithmetic
	if a.k == kFloat || b.k == kFloat {
		if e.Op == "%" {
			g.fail("%% on floats")
		}
		return gval{code: "(" + g.toFloat(a) + " " + e.Op + " " + g.toFloat(b) + ")", k: kFloat}
	}
	if a.k == kU32 || b.k == kU32 {
		ac, bc := a.code, b.code
		if a.k != kU32 {
			ac = "uint32(" + ac + ")"
		}
		if b.k != kU32 && e.Op != "<<" && e.Op != ">>" {
			bc = "uint32(" + bc + ")"
		}
		return gval{code: "(" + ac + " " + e.Op + " " + bc + ")", k: kU32}
	}
	ac, bc := a.code, b.code
	if a.t != nil {
		ac = "int(" + ac + ")"
	}
	if b.t != nil {
		bc = "int(" + bc + ")"
	}
	if e.Op == "<<" || e.Op == ">>" {
		bc = "uint(" + bc + ")"
	}
	return gval{code: "(" + ac + " " + e.Op + " " + bc + ")", k: kInt}
}

func (g *goCompiler) compileQuant(e *CExpr, old bool, bound map[string]gval) gval {
	nb := map[string]gval{}
	for k, v := range bound {
		nb[k] = v
	}
	var b strings.Builder
	all := e.Op == "forall"
	b.WriteString("func() bool {\n")
	closers := 0
	for _, v := range e.Vars {
		if v.Type.Kind != "int" {
			g.fail("quantifier over non-int")
		}
		g.rc.tmp++
		name := fmt.Sprintf("q%d_%s", g.rc.tmp, v.Name)
		lo, hi := "-70", "4200"
		if v.Lo != nil {
			lo = "int(" + g.compile(v.Lo, old, nb).code + ")"
			hi = "int(" + g.compile(v.Hi, old, nb).code + ")"
		}
		fmt.Fprintf(&b, "for %s := %s; %s < %s; %s++ {\n", name, lo, name, hi, name)
		closers++
		nb[v.Name] = gval{code: name, k: kInt}
	}
	body := g.compile(e.Args[0], old, nb)
	if all {
		fmt.Fprintf(&b, "if !(%s) { return false }\n", body.code)
	} else {
		fmt.Fprintf(&b, "if %s { return true }\n", body.code)
	}
	b.WriteString(strings.Repeat("}\n", closers))
	if all {
		b.WriteString("return true }()")
	} else {
		b.WriteString("return false }()")
	}
	return gval{code: b.String(), k: kBool}
}

func (g *goCompiler) ctypeGo(t *CType) (string, gkind, types.Type) {
	switch t.Kind {
	case "int", "int64":
		return "int", kInt, nil
	case "uint":
		return "uint", kInt, types.Typ[types.Uint]
	case "byte":
		return "byte", kInt, types.Typ[types.Byte]
	case "uint32":
		return "uint32", kU32, types.Typ[types.Uint32]
	case "real", "float64":
		return "float64", kFloat, nil
	case "bool":
		return "bool", kBool, nil
	case "slice":
		es, _, et := g.ctypeGo(t.Elem)
		if et == nil {
			switch t.Elem.Kind {
			case "int":
				et = types.Typ[types.Int]
			case "real", "float64":
				et = types.Typ[types.Float64]
			case "bool":
				et = types.Typ[types.Bool]
			}
		}
		if et == nil {
			g.fail("unsupported slice element type")
		}
		return "[]" + es, kSeq, types.NewSlice(et)
	case "named":
		if o := g.pkg.Scope().Lookup(t.Name); o != nil {
			if tn, ok := o.(*types.TypeName); ok {
				return t.Name, kindOfType(tn.Type()), tn.Type()
			}
		}
	}
	g.fail("unsupported spec parameter type %s", t.String())
	return "", kOther, nil
}

func (g *goCompiler) compileCall(e *CExpr, old bool, bound map[string]gval) gval {
	arg := func(i int) gval { return g.compile(e.Args[i], old, bound) }
	fl := func(i int) string { return g.toFloat(arg(i)) }
	need := func(n int) {
		if len(e.Args) != n {
			g.fail("%s: arity", e.Name)
		}
	}
	switch e.Name {
	case "len":
		need(1)
		return gval{code: "len(" + arg(0).code + ")", k: kInt}
	case "cap":
		need(1)
		return gval{code: "cap(" + arg(0).code + ")", k: kInt}
	case "fresh":
		return gval{code: "true", k: kBool}
	case "isnil":
		need(1)
		return gval{code: "(" + arg(0).code + " == nil)", k: kBool}
	case "isnan":
		need(1)
		return gval{code: "math.IsNaN(" + fl(0) + ")", k: kBool}
	case "isinf":
		need(1)
		return gval{code: "math.IsInf(" + fl(0) + ", 0)", k: kBool}
	case "isfinite":
		need(1)
		return gval{code: "(!math.IsNaN(" + fl(0) + ") && !math.IsInf(" + fl(0) + ", 0))", k: kBool}
	case "val", "real", "float64":
		need(1)
		return gval{code: fl(0), k: kFloat}
	case "int", "trunc":
		need(1)
		return gval{code: "int(" + arg(0).code + ")", k: kInt}
	case "uint":
		need(1)
		return gval{code: "int(" + arg(0).code + ")", k: kInt}
	case "ifloor":
		need(1)
		return gval{code: "int(math.Floor(" + fl(0) + "))", k: kInt}
	case "iceil":
		need(1)
		return gval{code: "int(math.Ceil(" + fl(0) + "))", k: kInt}
	case "min", "max":
		need(2)
		a, b := arg(0), arg(1)
		if a.k == kFloat || b.k == kFloat {
			fn := map[string]string{"min": "math.Min", "max": "math.Max"}[e.Name]
			return gval{code: fn + "(" + g.toFloat(a) + ", " + g.toFloat(b) + ")", k: kFloat}
		}
		op := map[string]string{"min": "<", "max": ">"}[e.Name]
		return gval{code: fmt.Sprintf("func() int { a, b := int(%s), int(%s); if a %s b { return a }; return b }()", a.code, b.code, op), k: kInt}
	case "abs":
		need(1)
		a := arg(0)
		if a.k == kFloat {
			return gval{code: "math.Abs(" + a.code + ")", k: kFloat}
		}
		return gval{code: fmt.Sprintf("func() int { a := int(%s); if a < 0 { return -a }; return a }()", a.code), k: kInt}
	case "floor", "ceil", "sqrt", "exp", "log", "erfc":
		need(1)
		fn := map[string]string{"floor": "Floor", "ceil": "Ceil", "sqrt": "Sqrt", "exp": "Exp", "log": "Log", "erfc": "Erfc"}[e.Name]
		return gval{code: "math." + fn + "(" + fl(0) + ")", k: kFloat}
	case "pow":
		need(2)
		return gval{code: "math.Pow(" + fl(0) + ", " + fl(1) + ")", k: kFloat}
	case "same":
		need(2)
		return gval{code: "gowpSeqEq(" + arg(0).code + ", " + arg(1).code + ")", k: kBool}
	case "tdiv":
		need(2)
		return gval{code: "(int(" + arg(0).code + ") / int(" + arg(1).code + "))", k: kInt}
	case "tmod":
		need(2)
		return gval{code: "(int(" + arg(0).code + ") % int(" + arg(1).code + "))", k: kInt}
	case "fdiv":
		need(2)
		return gval{code: "int(math.Floor(float64(" + arg(0).code + ") / float64(" + arg(1).code + ")))", k: kInt}
	case "feq":
		need(2)
		return gval{code: "(" + fl(0) + " == " + fl(1) + ")", k: kBool}
	case "bit32":
		need(1)
		return gval{code: "func() uint32 { c := int(" + arg(0).code + "); if c < 0 || c >= 32 { return 0 }; return uint32(1) << uint(c) }()", k: kU32}
	case "shr32", "shl32":
		need(2)
		op := map[string]string{"shr32": ">>", "shl32": "<<"}[e.Name]
		return gval{code: "func() uint32 { c := int(" + arg(1).code + "); if c < 0 || c >= 32 { return 0 }; return uint32(" + arg(0).code + ") " + op + " uint(c) }()", k: kU32}
	case "tz32":
		need(1)
		g.rc.imports["math/bits"] = true
		return gval{code: "bits.TrailingZeros32(uint32(" + arg(0).code + "))", k: kInt}
	}
	if strings.HasPrefix(e.Name, ".") {
		// method-style call on a real value
		recv := arg(0)
		var as []string
		for i := 1; i < len(e.Args); i++ {
			as = append(as, arg(i).code)
		}
		if recv.t == nil {
			g.fail("method call on untyped value")
		}
		ms := types.NewMethodSet(recv.t)
		for i := 0; i < ms.Len(); i++ {
			if ms.At(i).Obj().Name() == e.Name[1:] {
				sig := ms.At(i).Obj().Type().(*types.Signature)
				if sig.Results().Len() == 1 {
					return g.fromType(recv.code+e.Name+"("+strings.Join(as, ", ")+")", sig.Results().At(0).Type())
				}
			}
		}
		g.fail("method %s not found", e.Name)
	}
	if sf, ok := g.x.eng.specs[e.Name]; ok {
		if sf.Opaque {
			g.fail("opaque spec function %s has no executable definition", sf.Name)
		}
		if !sf.Rec {
			if g.depth > 20 {
				g.fail("spec expansion too deep")
			}
			nb := map[string]gval{}
			for i, p := range sf.Params {
				v := arg(i)
				// struct-typed parameter receiving a pointer
				if p.Type.Kind == "named" && v.t != nil {
					if pt, isPtr := v.t.Underlying().(*types.Pointer); isPtr {
						v = g.fromType("(*"+v.code+")", pt.Elem())
					}
				}
				if v.k != kSeq && v.k != kOther {
					_, pk, _ := g.ctypeGo(p.Type)
					if pk == kFloat && v.k != kFloat {
						v = gval{code: g.toFloat(v), k: kFloat}
					}
				}
				v.code = "(" + v.code + ")"
				nb[p.Name] = v
			}
			g.depth++
			r := g.compile(sf.Body, old, nb)
			g.depth--
			_, rk, _ := g.ctypeGo(sf.Ret)
			if rk == kFloat && r.k != kFloat {
				r = gval{code: g.toFloat(r), k: kFloat}
			}
			r.code = "(" + r.code + ")"
			return r
		}
		// recursive: helper function
		hname := "gowpSpec_" + sf.Name
		rs, rk, rt := g.ctypeGo(sf.Ret)
		if _, done := g.rc.helpers[hname]; !done {
			g.rc.helpers[hname] = "" // reserve (recursion)
			nb := map[string]gval{}
			var ps []string
			for _, p := range sf.Params {
				ts, pk, pt := g.ctypeGo(p.Type)
				ps = append(ps, "p_"+p.Name+" "+ts)
				v := gval{code: "p_" + p.Name, k: pk, t: pt}
				if pk == kSeq {
					sl := pt.Underlying().(*types.Slice)
					v.ek, v.et = kindOfType(sl.Elem()), sl.Elem()
				}
				nb[p.Name] = v
			}
			body := g.compile(sf.Body, false, nb)
			bc := body.code
			if rk == kFloat && body.k != kFloat {
				bc = g.toFloat(body)
			}
			if rk == kInt {
				bc = "int(" + bc + ")"
			}
			g.rc.helpers[hname] = fmt.Sprintf("func %s(%s) %s {\n\treturn %s\n}\n", hname, strings.Join(ps, ", "), rs, bc)
		}
		var as []string
		for i, p := range sf.Params {
			v := arg(i)
			_, pk, _ := g.ctypeGo(p.Type)
			c := v.code
			if pk == kFloat && v.k != kFloat {
				c = g.toFloat(v)
			}
			if pk == kInt {
				c = "int(" + c + ")"
			}
			as = append(as, c)
		}
		return gval{code: hname + "(" + strings.Join(as, ", ") + ")", k: rk, t: rt}
	}
	g.fail("unknown function %s", e.Name)
	return gval{}
}

// snapshot emits code declaring old_<name>, a deep copy of the parameter.
func (g *goCompiler) snapshot(name string, ty *Ty) string {
	var b strings.Builder
	on := "old_" + name
	copySlices := func(dst, src string, st *Ty) {
		for _, f := range st.Struct.Fields {
			if f.Ty.K == TSlice {
				fmt.Fprintf(&b, "\tif %s.%s != nil {\n\t\t%s.%s = append(make(%s, 0, len(%s.%s)), %s.%s...)\n\t}\n", src, f.Name, dst, f.Name, g.rc.goType(f.Ty), src, f.Name, src, f.Name)
			}
		}
	}
	switch ty.K {
	case TPtr:
		fmt.Fprintf(&b, "\t%s := new(%s)\n\tif %s != nil {\n\t*%s = *%s\n", on, g.rc.goType(ty.Elem), name, on, name)
		if ty.Elem.K == TStruct {
			copySlices(on, name, ty.Elem)
		}
		b.WriteString("\t}\n")
	case TSlice:
		fmt.Fprintf(&b, "\tvar %s %s\n\tif %s != nil {\n\t\t%s = append(make(%s, 0, len(%s)), %s...)\n\t}\n", on, g.rc.goType(ty), name, on, g.rc.goType(ty), name, name)
	case TStruct:
		fmt.Fprintf(&b, "\t%s := %s\n", on, name)
		copySlices(on, name, ty)
	default:
		fmt.Fprintf(&b, "\t%s := %s\n", on, name)
	}
	fmt.Fprintf(&b, "\t_ = %s\n", on)
	return b.String()
}

// frameCheck: parameters not named in the assigns clause are unchanged.
func (g *goCompiler) frameCheck(_ []string, assigns []*CExpr) string {
	roots := map[string]bool{}
	var root func(e *CExpr) string
	root = func(e *CExpr) string {
		if e.Kind == "id" {
			return e.Name
		}
		if len(e.Args) > 0 && e.Args[0] != nil {
			return root(e.Args[0])
		}
		return ""
	}
	for _, a := range assigns {
		roots[root(a)] = true
	}
	var b strings.Builder
	check := func(v *types.Var) {
		if v == nil || v.Name() == "" || v.Name() == "_" || roots[v.Name()] {
			return
		}
		ty := g.x.w.goTy(v.Type(), g.x.model.BV)
		n := v.Name()
		switch ty.K {
		case TSlice:
			fmt.Fprintf(&b, "\tif len(%s) > 0 && !reflect.DeepEqual(%s, old_%s) {\n\t\treturn fmt.Sprintf(\"frame violated on the real code: argument %s was modified: before %%v after %%v\", old_%s, %s), desc, false\n\t}\n", n, n, n, n, n, n)
		case TPtr:
			fmt.Fprintf(&b, "\tif %s != nil && !reflect.DeepEqual(*%s, *old_%s) {\n\t\treturn fmt.Sprintf(\"frame violated on the real code: *%s was modified: before %%v after %%v\", *old_%s, *%s), desc, false\n\t}\n", n, n, n, n, n, n)
		case TStruct:
			fmt.Fprintf(&b, "\tif !reflect.DeepEqual(%s, old_%s) {\n\t\treturn fmt.Sprintf(\"frame violated on the real code: storage reachable from argument %s was modified: before %%v after %%v\", old_%s, %s), desc, false\n\t}\n", n, n, n, n, n)
		}
	}
	check(g.sig.Recv())
	for i := 0; i < g.sig.Params().Len(); i++ {
		check(g.sig.Params().At(i))
	}
	return b.String()
}
