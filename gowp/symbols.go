package main

import (
	"bytes"
	"encoding/json"
	"fmt"
	"go/ast"
	"go/printer"
	"go/token"
	"go/types"
	"os"
	"sort"
	"strings"
)

// Symbol snapshot: contracts name locals and parameters by their names. A
// behaviour-preserving rename of such a variable would lose every invariant
// that mentions it. /verif/symbols.json records, for every function under
// contract, its parameters, results and locals in declaration order with
// their types (written by `gowp symbols` from the tree the contracts were
// written against). When a contract names a variable that no longer exists
// and the function still declares the same number of variables with the same
// types in the same order, the name is read as the variable now declared at
// that position. This cannot make anything provable that is not: invariants,
// assertions and postconditions are obligations, so a wrong reading only
// makes a proof fail.

type symRec struct {
	Name string `json:"n"`
	Type string `json:"t"`
}

func funcSyms(fi *FuncInfo) []symRec {
	var out []symRec
	info := fi.Pkg.TypesInfo
	qual := func(p *types.Package) string { return p.Name() }
	ast.Inspect(fi.Decl, func(n ast.Node) bool {
		id, ok := n.(*ast.Ident)
		if !ok {
			return true
		}
		if v, ok := info.Defs[id].(*types.Var); ok && !v.IsField() && id.Name != "_" {
			out = append(out, symRec{Name: id.Name, Type: types.TypeString(v.Type(), qual)})
		}
		return true
	})
	return out
}

// funcRets: the return statements of the function body (function literals
// excluded) as source text, in source order; the implicit return at the
// closing brace is the last entry.
func funcRets(fi *FuncInfo) []string {
	var out []string
	if fi.Decl == nil || fi.Decl.Body == nil {
		return nil
	}
	fset := token.NewFileSet()
	ast.Inspect(fi.Decl.Body, func(n ast.Node) bool {
		switch r := n.(type) {
		case *ast.FuncLit:
			return false
		case *ast.ReturnStmt:
			var b bytes.Buffer
			printer.Fprint(&b, fset, r)
			out = append(out, strings.Join(strings.Fields(b.String()), " "))
		}
		return true
	})
	return append(out, "<end>")
}

// retAlignment maps the current ordinal (1-based) of each return statement to
// the ordinal it had in the snapshot (0: a return that was not there), by a
// longest-common-subsequence alignment of the statements' texts. nil if
// nothing moved.
func retAlignment(fi *FuncInfo) []int {
	snap := loadSymSnapshot()
	if snap == nil || fi == nil {
		return nil
	}
	recs, ok := snap["rets:"+fi.Key]
	if !ok {
		return nil
	}
	var old []string
	for _, r := range recs {
		old = append(old, r.Name)
	}
	cur := funcRets(fi)
	if len(old) == len(cur) {
		// the same number of return sites: they keep their ordinals whatever
		// their text (a changed return statement is still "the N-th return")
		return nil
	}
	n, m := len(old), len(cur)
	l := make([][]int, n+1)
	for i := range l {
		l[i] = make([]int, m+1)
	}
	for i := n - 1; i >= 0; i-- {
		for j := m - 1; j >= 0; j-- {
			if old[i] == cur[j] {
				l[i][j] = l[i+1][j+1] + 1
			} else if l[i+1][j] >= l[i][j+1] {
				l[i][j] = l[i+1][j]
			} else {
				l[i][j] = l[i][j+1]
			}
		}
	}
	out := make([]int, m+1)
	usedOld := make([]bool, n)
	type pair struct{ i, j int }
	var matches []pair
	for i, j := 0, 0; i < n && j < m; {
		switch {
		case old[i] == cur[j]:
			out[j+1] = i + 1
			usedOld[i] = true
			matches = append(matches, pair{i, j})
			i++
			j++
		case l[i+1][j] >= l[i][j+1]:
			i++
		default:
			j++
		}
	}
	// between two matched returns, a snapshot return without a textual match
	// is taken to be the (changed) current return at the corresponding place,
	// counted from the end of the gap: anchored checks are then evaluated at a
	// changed statement instead of being lost
	matches = append(matches, pair{n, m})
	pi, pj := 0, 0
	for _, mt := range matches {
		oi, cj := mt.i-1, mt.j-1
		for oi >= pi && cj >= pj {
			if usedOld[oi] {
				oi--
				continue
			}
			if out[cj+1] != 0 {
				cj--
				continue
			}
			out[cj+1] = oi + 1
			usedOld[oi] = true
			oi--
			cj--
		}
		pi, pj = mt.i+1, mt.j+1
	}
	return out
}

func cmdSymbols(args []string) int {
	repo := "/repo"
	if len(args) >= 2 && args[0] == "-repo" {
		repo = args[1]
	}
	e, err := loadEngine(repo)
	if err != nil {
		fmt.Fprintln(os.Stderr, "load:", err)
		return 2
	}
	snap := map[string][]symRec{}
	var keys []string
	for k := range e.funcs {
		keys = append(keys, k)
	}
	sort.Strings(keys)
	for _, k := range keys {
		snap[k] = funcSyms(e.funcs[k])
		var rets []symRec
		for _, r := range funcRets(e.funcs[k]) {
			rets = append(rets, symRec{Name: r})
		}
		snap["rets:"+k] = rets
	}
	b, _ := json.MarshalIndent(snap, "", " ")
	os.Stdout.Write(append(b, '\n'))
	return 0
}

var symSnapshot map[string][]symRec
var symLoaded bool

func loadSymSnapshot() map[string][]symRec {
	if symLoaded {
		return symSnapshot
	}
	symLoaded = true
	path := os.Getenv("GOWP_SYMBOLS")
	if path == "" {
		path = "/verif/symbols.json"
	}
	b, err := os.ReadFile(path)
	if err != nil {
		return nil
	}
	m := map[string][]symRec{}
	if json.Unmarshal(b, &m) == nil {
		symSnapshot = m
	}
	return symSnapshot
}

// renameAliases: old name -> current name for the variables of fi that were
// renamed since the snapshot (same position, same type, old name gone).
func renameAliases(fi *FuncInfo) map[string]string {
	snap := loadSymSnapshot()
	if snap == nil || fi == nil {
		return nil
	}
	old, ok := snap[fi.Key]
	if !ok {
		return nil
	}
	cur := funcSyms(fi)
	if len(cur) != len(old) {
		return nil
	}
	curNames := map[string]bool{}
	for _, c := range cur {
		curNames[c.Name] = true
	}
	alias := map[string]string{}
	bad := map[string]bool{}
	for i := range old {
		if old[i].Type != cur[i].Type {
			return nil // the declarations changed, not just names
		}
		if old[i].Name == cur[i].Name {
			continue
		}
		if curNames[old[i].Name] {
			bad[old[i].Name] = true // the old name still denotes something
			continue
		}
		if a, have := alias[old[i].Name]; have && a != cur[i].Name {
			bad[old[i].Name] = true
			continue
		}
		alias[old[i].Name] = cur[i].Name
	}
	for n := range bad {
		delete(alias, n)
	}
	if len(alias) == 0 {
		return nil
	}
	return alias
}
