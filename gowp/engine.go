package main

import (
	"fmt"
	"go/ast"
	"go/token"
	"go/types"
	"os"
	"path/filepath"
	"sort"
	"strings"

	"golang.org/x/tools/go/packages"
)

type FuncInfo struct {
	Key  string // pkgname.[Recv.]Name
	Pkg  *packages.Package
	Decl *ast.FuncDecl
	Obj  *types.Func
}

type Engine struct {
	repo       string
	pkgs       []*packages.Package
	pkgTypes   map[string]*types.Package
	pkgByName  map[string]*packages.Package
	w          *World
	contracts  map[string]*FuncContract
	specs      map[string]*SpecFunc
	lemmas     map[string]*Lemma
	lemmaOrder []string
	ghostTypes map[string]*Ty
	pures      map[string]bool
	symbolic   map[string]bool
	axioms     []axiomDecl
	funcs      map[string]*FuncInfo
	assigned   map[types.Object]bool // package-level vars assigned somewhere in the repo (non-test code)
	varInit    map[types.Object]ast.Expr
	varInitPkg map[types.Object]*packages.Package
	strIDs     map[string]int64
	boundCtr   int
	fset       *token.FileSet
	loadErrs   []string
}

type axiomDecl struct {
	Pkg string
	Cl  Clause
}

func loadEngine(repo string) (*Engine, error) {
	cfg := &packages.Config{
		Mode: packages.NeedName | packages.NeedFiles | packages.NeedSyntax | packages.NeedTypes |
			packages.NeedTypesInfo | packages.NeedImports | packages.NeedDeps | packages.NeedCompiledGoFiles,
		Dir:        repo,
		BuildFlags: []string{"-tags=verif"},
		Env:        append(os.Environ(), "GOFLAGS=-mod=mod", "GOPROXY=off", "GOSUMDB=off", "GOTOOLCHAIN=local"),
	}
	pkgs, err := packages.Load(cfg, "./...")
	if err != nil {
		return nil, err
	}
	e := &Engine{repo: repo, pkgs: pkgs, pkgTypes: map[string]*types.Package{}, pkgByName: map[string]*packages.Package{},
		w: NewWorld(), contracts: map[string]*FuncContract{}, specs: map[string]*SpecFunc{}, lemmas: map[string]*Lemma{},
		ghostTypes: map[string]*Ty{}, pures: map[string]bool{}, symbolic: map[string]bool{}, funcs: map[string]*FuncInfo{},
		assigned: map[types.Object]bool{}, varInit: map[types.Object]ast.Expr{}, varInitPkg: map[types.Object]*packages.Package{},
		strIDs: map[string]int64{}}
	for _, p := range pkgs {
		for _, er := range p.Errors {
			e.loadErrs = append(e.loadErrs, er.Error())
		}
		if p.Fset != nil {
			e.fset = p.Fset
		}
		e.pkgTypes[p.Types.Name()] = p.Types
		e.pkgByName[p.Types.Name()] = p
		e.indexPackage(p)
	}
	if len(e.loadErrs) > 0 {
		return e, fmt.Errorf("package load errors: %s", strings.Join(e.loadErrs, "; "))
	}
	// contract files
	var cfs []*ContractFile
	for _, p := range pkgs {
		if len(p.GoFiles) == 0 {
			continue
		}
		dir := filepath.Dir(p.GoFiles[0])
		path := filepath.Join(dir, "zz_contracts_verif.go")
		if _, err := os.Stat(path); err != nil {
			continue
		}
		cf, err := parseContractFile(path, p.Types.Name())
		if err != nil {
			return e, err
		}
		cfs = append(cfs, cf)
	}
	// ghost types first (specs and contracts refer to them)
	for _, cf := range cfs {
		for _, gt := range cf.Ghosts {
			sd := &StructDesc{Name: "G_" + gt.Name, Ghost: true}
			ce := &CEnv{x: &Exec{eng: e, w: e.w, model: modelByName("real")}, pkg: e.pkgTypes[cf.Pkg]}
			for _, f := range gt.Fields {
				sd.Fields = append(sd.Fields, FieldDesc{Name: f.Name, Ty: ce.cty(f.Type)})
			}
			e.w.structs[sd.Name] = sd
			e.w.structList = append(e.w.structList, sd)
			e.ghostTypes[gt.Name] = &Ty{K: TStruct, Struct: sd}
		}
	}
	for _, cf := range cfs {
		for _, sf := range cf.Specs {
			if _, dup := e.specs[sf.Name]; dup {
				return e, fmt.Errorf("duplicate spec function %s", sf.Name)
			}
			e.specs[sf.Name] = sf
		}
		for _, lm := range cf.Lemmas {
			e.lemmas[lm.Name] = lm
			e.lemmaOrder = append(e.lemmaOrder, lm.Name)
		}
		for _, p := range cf.Pures {
			if strings.Count(p, ".") == 1 {
				p = cf.Pkg + "." + p
			}
			e.pures[p] = true
		}
		for _, g := range cf.Symbolic {
			e.symbolic[cf.Pkg+"."+g] = true
		}
		for _, ax := range cf.Axioms {
			e.axioms = append(e.axioms, axiomDecl{Pkg: cf.Pkg, Cl: ax})
		}
		for _, fc := range cf.Funcs {
			key := cf.Pkg + "." + fc.Key
			// fully qualified keys for other packages (stdlib or repo): first
			// component names an imported package rather than a local type.
			first := fc.Key
			if k := strings.Index(first, "."); k >= 0 {
				first = first[:k]
				if o := e.pkgTypes[cf.Pkg].Scope().Lookup(first); o == nil {
					key = fc.Key
				} else if _, isType := o.(*types.TypeName); !isType {
					key = fc.Key
				}
			}
			if key == fc.Key && fc.Assume {
				// contract on a function of another package (stdlib): scoped
				// to the declaring package, and global if it is the first
				e.contracts[cf.Pkg+"@"+key] = fc
				if _, dup := e.contracts[key]; !dup {
					e.contracts[key] = fc
				}
				continue
			}
			if _, dup := e.contracts[key]; dup {
				return e, fmt.Errorf("duplicate contract for %s", key)
			}
			e.contracts[key] = fc
		}
	}
	return e, nil
}

func (e *Engine) indexPackage(p *packages.Package) {
	for _, f := range p.Syntax {
		fname := p.Fset.Position(f.Pos()).Filename
		if strings.HasSuffix(fname, "_test.go") {
			continue
		}
		for _, d := range f.Decls {
			switch d := d.(type) {
			case *ast.FuncDecl:
				obj, _ := p.TypesInfo.Defs[d.Name].(*types.Func)
				if obj == nil {
					continue
				}
				key := funcKey(obj)
				e.funcs[key] = &FuncInfo{Key: key, Pkg: p, Decl: d, Obj: obj}
			case *ast.GenDecl:
				if d.Tok != token.VAR {
					continue
				}
				for _, sp := range d.Specs {
					vs := sp.(*ast.ValueSpec)
					for i, n := range vs.Names {
						o := p.TypesInfo.Defs[n]
						if o == nil {
							continue
						}
						if len(vs.Values) == len(vs.Names) {
							e.varInit[o] = vs.Values[i]
							e.varInitPkg[o] = p
						}
					}
				}
			}
		}
		// assignments to package-level variables
		ast.Inspect(f, func(n ast.Node) bool {
			mark := func(ex ast.Expr) {
				for {
					switch t := ex.(type) {
					case *ast.ParenExpr:
						ex = t.X
						continue
					case *ast.IndexExpr:
						ex = t.X
						continue
					case *ast.SelectorExpr:
						if o, ok := p.TypesInfo.Uses[t.Sel].(*types.Var); ok && !o.IsField() && o.Parent() == o.Pkg().Scope() {
							e.assigned[o] = true
							return
						}
						ex = t.X
						continue
					case *ast.StarExpr:
						ex = t.X
						continue
					case *ast.Ident:
						if o, ok := p.TypesInfo.Uses[t].(*types.Var); ok && o.Pkg() != nil && o.Parent() == o.Pkg().Scope() {
							e.assigned[o] = true
						}
					}
					return
				}
			}
			switch s := n.(type) {
			case *ast.AssignStmt:
				for _, l := range s.Lhs {
					mark(l)
				}
			case *ast.IncDecStmt:
				mark(s.X)
			case *ast.UnaryExpr:
				if s.Op == token.AND {
					mark(s.X)
				}
			case *ast.RangeStmt:
				if s.Key != nil {
					mark(s.Key)
				}
				if s.Value != nil {
					mark(s.Value)
				}
			}
			return true
		})
	}
}

func funcKey(fn *types.Func) string {
	pkg := ""
	if fn.Pkg() != nil {
		pkg = fn.Pkg().Name()
	}
	sig := fn.Type().(*types.Signature)
	if r := sig.Recv(); r != nil {
		t := r.Type()
		if p, ok := t.(*types.Pointer); ok {
			t = p.Elem()
		}
		t = types.Unalias(t)
		if n, ok := t.(*types.Named); ok {
			return pkg + "." + n.Obj().Name() + "." + fn.Name()
		}
		return pkg + ".?." + fn.Name()
	}
	return pkg + "." + fn.Name()
}

func (e *Engine) contractKeys() []string {
	var ks []string
	for k := range e.contracts {
		ks = append(ks, k)
	}
	sort.Strings(ks)
	return ks
}

func (e *Engine) pos(p token.Pos) string {
	if e.fset == nil {
		return "?"
	}
	ps := e.fset.Position(p)
	rel, err := filepath.Rel(e.repo, ps.Filename)
	if err != nil {
		rel = ps.Filename
	}
	return fmt.Sprintf("%s:%d", rel, ps.Line)
}
