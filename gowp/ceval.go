package main

// Evaluation of contract expressions (CExpr) to SMT terms.

import (
	"fmt"
	"go/types"
	"math/big"
	"strings"
)

// CEnv is the evaluation environment of a contract expression.
type CEnv struct {
	x        *Exec
	st       *State // state for heap reads
	old      *State // state for old(...)
	lookup   func(name string) (Val, bool)
	oldLook  func(name string) (Val, bool) // names inside old(); nil = same as lookup
	bound    map[string]Val                // quantifier / spec parameters
	pkg      *types.Package                // for globals and named types
	inOld    bool
	oldAlloc *Term // allocation counter at entry (for fresh())
	specMode bool  // evaluating a spec-function body (no heap access)
}

func (c *CEnv) withBound(name string, v Val) *CEnv {
	n := *c
	n.bound = make(map[string]Val, len(c.bound)+1)
	for k, vv := range c.bound {
		n.bound[k] = vv
	}
	n.bound[name] = v
	return &n
}

func (c *CEnv) state() *State {
	if c.inOld && c.old != nil {
		return c.old
	}
	return c.st
}

func (c *CEnv) errf(e *CExpr, f string, a ...any) {
	panic(fmt.Sprintf("contract: %s (in %q)", fmt.Sprintf(f, a...), exprSrc(e)))
}

func exprSrc(e *CExpr) string {
	if e == nil {
		return ""
	}
	if e.Src != "" {
		return e.Src
	}
	return e.Kind + ":" + e.Name + e.Op
}

func (c *CEnv) evalBool(e *CExpr) *Term {
	v := c.eval(e)
	if v.T.Sort != SBool {
		c.errf(e, "boolean expected, got sort %s", v.T.Sort)
	}
	return v.T
}

func (c *CEnv) cty(t *CType) *Ty {
	x := c.x
	switch t.Kind {
	case "int", "byte", "uint", "int64":
		return &Ty{K: TInt, Unsigned: t.Kind == "byte" || t.Kind == "uint"}
	case "uint32":
		if x.model.BV {
			return &Ty{K: TBV32, Unsigned: true, Bits: 32}
		}
		return &Ty{K: TInt, Unsigned: true}
	case "real":
		return tyReal
	case "float64":
		return tyFloat
	case "bool":
		return tyBool
	case "slice":
		return &Ty{K: TSlice, Elem: c.cty(t.Elem)}
	case "ptr":
		return &Ty{K: TPtr, Elem: c.cty(t.Elem)}
	case "func":
		basic := func(ct *CType) types.Type {
			switch ct.Kind {
			case "int":
				return types.Typ[types.Int]
			case "bool":
				return types.Typ[types.Bool]
			case "float64", "real":
				return types.Typ[types.Float64]
			}
			panic("contract: unsupported type in func type: " + ct.String())
		}
		var ps []*types.Var
		for _, p := range t.Params {
			ps = append(ps, types.NewVar(0, nil, "", basic(p)))
		}
		sig := types.NewSignatureType(nil, nil, nil, types.NewTuple(ps...), types.NewTuple(types.NewVar(0, nil, "", basic(t.Ret))), false)
		return &Ty{K: TOpaque, Go: sig, Name: "func"}
	case "named":
		if gt, ok := x.eng.ghostTypes[t.Name]; ok {
			return gt
		}
		name := t.Name
		pkg := c.pkg
		if k := strings.Index(name, "."); k >= 0 {
			pn := name[:k]
			name = name[k+1:]
			pkg = nil
			for _, p := range x.eng.pkgs {
				if p.Types.Name() == pn {
					pkg = p.Types
				}
			}
		}
		if pkg != nil {
			if o := pkg.Scope().Lookup(name); o != nil {
				if tn, ok := o.(*types.TypeName); ok {
					return x.w.goTy(tn.Type(), x.model.BV)
				}
			}
		}
		panic("contract: unknown type " + t.Name)
	}
	panic("contract: bad type " + t.String())
}

func (c *CEnv) eval(e *CExpr) Val {
	x := c.x
	switch e.Kind {
	case "paren":
		return c.eval(e.Args[0])
	case "int":
		n, _ := new(big.Int).SetString(e.Name, 10)
		return Val{T: BigIntLit(n), Ty: tyInt}
	case "float":
		r, ok := new(big.Rat).SetString(e.Name)
		if !ok {
			c.errf(e, "bad float literal")
		}
		return Val{T: RatLit(r), Ty: tyReal}
	case "bool":
		if e.Name == "true" {
			return Val{T: tTrue, Ty: tyBool}
		}
		return Val{T: tFalse, Ty: tyBool}
	case "id":
		return c.evalIdent(e)
	case "unbox", "hastype":
		h := c.eval(e.Args[0])
		ty := c.cty(e.Vars[0].Type)
		key := boxKey(ty)
		if h.Ty.K != TOpaque || key == "" {
			c.errf(e, "%s: an interface value and a plain basic or slice type expected", e.Kind)
		}
		sort := x.w.sortOf(ty, x.model)
		if e.Kind == "hastype" {
			return Val{T: x.dynTypeIs(h.T, key, sort), Ty: tyBool}
		}
		return Val{T: x.unboxed(h.T, key, sort), Ty: ty}
	case "old":
		if c.old == nil {
			c.errf(e, "old() not available here")
		}
		n := *c
		n.inOld = true
		if c.oldLook != nil {
			n.lookup = c.oldLook
		}
		return n.eval(e.Args[0])
	case "un":
		v := c.eval(e.Args[0])
		switch e.Op {
		case "!":
			return Val{T: Not(v.T), Ty: tyBool}
		case "-":
			switch v.T.Sort {
			case SXR:
				return Val{T: mk("xneg", SXR, v.T), Ty: v.Ty}
			default:
				return Val{T: Neg(v.T), Ty: v.Ty}
			}
		case "^":
			if v.T.Sort == SBV32 {
				return Val{T: mk("bvnot", SBV32, v.T), Ty: v.Ty}
			}
		}
		c.errf(e, "bad unary")
	case "star":
		v := c.eval(e.Args[0])
		return c.deref(e, v)
	case "bin":
		return c.evalBin(e)
	case "cond":
		cnd := c.evalBool(e.Args[0])
		a, b := c.eval(e.Args[1]), c.eval(e.Args[2])
		if a.T.Sort != b.T.Sort {
			ta, tb, ty := x.unify(a, b)
			return Val{T: Ite(cnd, ta, tb), Ty: ty}
		}
		return Val{T: Ite(cnd, a.T, b.T), Ty: a.Ty, Seq: a.Seq}
	case "field":
		return c.evalField(e)
	case "index":
		base := c.eval(e.Args[0])
		idx := c.eval(e.Args[1])
		if base.Ty.K == TOpaque && base.Ty.Go != nil {
			if mt, ok := base.Ty.Go.Underlying().(*types.Map); ok {
				return x.mapGet(c.state(), base, idx, mt)
			}
		}
		s := c.asSeq(e, base)
		return x.seqIndex(s, idx.T)
	case "slice":
		base := c.asSeq(e, c.eval(e.Args[0]))
		lo := IntLit(0)
		if e.Args[1] != nil {
			lo = c.eval(e.Args[1]).T
		}
		hi := base.Seq.Len
		if e.Args[2] != nil {
			hi = c.eval(e.Args[2]).T
		}
		return Val{T: base.T, Ty: base.Ty, Seq: &SeqView{Off: Add(base.Seq.Off, lo), Len: Sub(hi, lo), Elem: base.Seq.Elem}}
	case "update":
		base := c.asSeq(e, c.eval(e.Args[0]))
		idx := c.eval(e.Args[1])
		v := c.eval(e.Args[2])
		vt := x.coerceTo(v, base.Seq.Elem)
		return Val{T: Store(base.T, IdxAdd(base.Seq.Off, idx.T), vt), Ty: base.Ty, Seq: &SeqView{Off: base.Seq.Off, Len: base.Seq.Len, Elem: base.Seq.Elem}}
	case "quant":
		return c.evalQuant(e)
	case "lit":
		ty := c.cty(&CType{Kind: "named", Name: e.Name})
		if ty.K != TStruct || len(e.Args) != len(ty.Struct.Fields) {
			c.errf(e, "struct literal arity")
		}
		var fs []*Term
		for i, a := range e.Args {
			fs = append(fs, x.coerceTo(c.eval(a), ty.Struct.Fields[i].Ty))
		}
		return Val{T: x.mkStruct(ty, fs), Ty: ty}
	case "call":
		return c.evalCall(e)
	case "apply":
		fv := c.eval(e.Args[0])
		if fv.Ty.K != TOpaque || fv.Ty.Go == nil {
			c.errf(e, "application of a non-function value")
		}
		sig, ok := fv.Ty.Go.Underlying().(*types.Signature)
		if !ok {
			c.errf(e, "application of a non-function value")
		}
		var vs []Val
		for _, a := range e.Args[1:] {
			v := c.eval(a)
			// numeric arguments of a float64 parameter
			vs = append(vs, v)
		}
		for i := range vs {
			pty := x.w.goTy(sig.Params().At(i).Type(), x.model.BV)
			vs[i] = Val{T: x.coerceTo(vs[i], pty), Ty: pty}
		}
		return x.applyFuncValue(fv, sig, vs)
	}
	c.errf(e, "unsupported expression kind %s", e.Kind)
	panic("unreachable")
}

func (c *CEnv) asSeq(e *CExpr, v Val) Val {
	if v.Seq != nil {
		return v
	}
	if v.Ty.K == TSlice {
		if c.specMode {
			c.errf(e, "slice value without heap in spec body")
		}
		return c.x.seqOf(v, c.state())
	}
	c.errf(e, "sequence expected")
	panic("unreachable")
}

func (c *CEnv) deref(e *CExpr, v Val) Val {
	if v.Ty.K != TPtr {
		c.errf(e, "dereference of non-pointer")
	}
	_, h := c.x.ptrHeapOf(c.state(), v.Ty.Elem)
	return Val{T: c.state().sel(h, v.T), Ty: v.Ty.Elem}
}

func (c *CEnv) evalIdent(e *CExpr) Val {
	x := c.x
	if v, ok := c.bound[e.Name]; ok {
		return v
	}
	if c.lookup != nil {
		if v, ok := c.lookup(e.Name); ok {
			return v
		}
		// a variable renamed since the contracts were written (symbols.go)
		if a, ok := x.aliasOf(e.Name); ok {
			if v, ok := c.lookup(a); ok {
				return v
			}
		}
	}
	switch e.Name {
	case "nil":
		return Val{T: IntLit(0), Ty: &Ty{K: TOpaque, Name: "nil"}}
	case "inf":
		if x.model.Float == SXR {
			return Val{T: mk("pinf", SXR), Ty: tyFloat}
		}
	case "ninf":
		if x.model.Float == SXR {
			return Val{T: mk("ninf", SXR), Ty: tyFloat}
		}
	case "nan":
		if x.model.Float == SXR {
			return Val{T: mk("nan", SXR), Ty: tyFloat}
		}
		return Val{T: x.rnan(), Ty: tyFloat}
	case "alloc":
		return Val{T: c.state().alloc, Ty: tyInt}
	}
	// package-level object
	if c.pkg != nil {
		if o := c.pkg.Scope().Lookup(e.Name); o != nil {
			switch o := o.(type) {
			case *types.Const:
				return x.constVal(o.Val(), x.w.goTy(o.Type(), x.model.BV))
			case *types.Var:
				return x.readGlobal(c.state(), o)
			}
		}
	}
	c.errf(e, "unknown identifier %s", e.Name)
	panic("unreachable")
}

func (c *CEnv) evalField(e *CExpr) Val {
	x := c.x
	// pkg-qualified global: pkg.Name
	if e.Args[0].Kind == "id" {
		if _, ok := c.bound[e.Args[0].Name]; !ok {
			found := false
			if c.lookup != nil {
				_, found = c.lookup(e.Args[0].Name)
			}
			if !found {
				for _, p := range x.eng.pkgs {
					if p.Types.Name() == e.Args[0].Name {
						n := *c
						n.pkg = p.Types
						n.lookup = nil
						n.bound = nil
						return n.evalIdent(&CExpr{Kind: "id", Name: e.Name})
					}
				}
				if c.pkg != nil {
					for _, imp := range c.pkg.Imports() {
						if imp.Name() == e.Args[0].Name {
							if o, ok := imp.Scope().Lookup(e.Name).(*types.Const); ok {
								return x.constVal(o.Val(), x.w.goTy(o.Type(), x.model.BV))
							}
						}
					}
				}
			}
		}
	}
	base := c.eval(e.Args[0])
	if base.Ty.K == TPtr {
		base = c.deref(e, base)
	}
	if base.Ty.K != TStruct {
		c.errf(e, "field %s of non-struct", e.Name)
	}
	i, f := base.Ty.Struct.field(e.Name)
	if f == nil {
		c.errf(e, "no field %s in %s", e.Name, base.Ty.Struct.Name)
	}
	return Val{T: x.structGet(base.T, base.Ty, i), Ty: f.Ty}
}

func (c *CEnv) evalBin(e *CExpr) Val {
	x := c.x
	switch e.Op {
	case "&&":
		return Val{T: And(c.evalBool(e.Args[0]), c.evalBool(e.Args[1])), Ty: tyBool}
	case "||":
		return Val{T: Or(c.evalBool(e.Args[0]), c.evalBool(e.Args[1])), Ty: tyBool}
	case "==>":
		return Val{T: Implies(c.evalBool(e.Args[0]), c.evalBool(e.Args[1])), Ty: tyBool}
	case "<==>":
		return Val{T: Eq(c.evalBool(e.Args[0]), c.evalBool(e.Args[1])), Ty: tyBool}
	}
	a, b := c.eval(e.Args[0]), c.eval(e.Args[1])
	switch e.Op {
	case "==", "!=", "<", "<=", ">", ">=":
		if (e.Op == "==" || e.Op == "!=") && a.Seq != nil && b.Seq != nil {
			// sequence equality: same length and elements
			k := BoundVar{Name: x.freshBound("k"), Sort: SInt}
			kt := mk(k.Name, SInt)
			eq := And(Eq(a.Seq.Len, b.Seq.Len),
				Forall([]BoundVar{k}, Implies(And(Le(IntLit(0), kt), Lt(kt, a.Seq.Len)),
					Eq(Select(a.T, IdxAdd(a.Seq.Off, kt)), Select(b.T, IdxAdd(b.Seq.Off, kt))))))
			if e.Op == "!=" {
				eq = Not(eq)
			}
			return Val{T: eq, Ty: tyBool}
		}
		// nil comparisons for slices / pointers
		if a.Ty.K == TSlice && b.Ty.K == TOpaque {
			t := Eq(slReg(a.T), IntLit(0))
			if e.Op == "!=" {
				t = Not(t)
			}
			return Val{T: t, Ty: tyBool}
		}
		return Val{T: x.compare(e.Op, a, b, false), Ty: tyBool}
	}
	return x.arith(e.Op, a, b)
}

func (x *Exec) freshBound(h string) string {
	// per verified function, so that the names in an obligation's script do
	// not depend on which other functions were translated before it
	x.boundCtr++
	return fmt.Sprintf("%s?%d", h, x.boundCtr)
}

func (c *CEnv) evalQuant(e *CExpr) Val {
	x := c.x
	env := c
	var bvs []BoundVar
	var ranges []*Term
	for _, v := range e.Vars {
		ty := c.cty(v.Type)
		name := x.freshBound(v.Name)
		bt := mk(name, x.w.sortOf(ty, x.model))
		if v.Lo != nil {
			lo := env.eval(v.Lo).T
			hi := env.eval(v.Hi).T
			ranges = append(ranges, Le(lo, bt), Lt(bt, hi))
		}
		bvs = append(bvs, BoundVar{Name: name, Sort: bt.Sort})
		env = env.withBound(v.Name, Val{T: bt, Ty: ty})
	}
	body := env.evalBool(e.Args[0])
	if e.Op == "forall" {
		var pats []*Term
		for _, p := range e.Pats {
			pats = append(pats, env.eval(p).T)
		}
		return Val{T: Forall(bvs, Implies(And(ranges...), body), pats...), Ty: tyBool}
	}
	return Val{T: Exists(bvs, And(append(ranges, body)...)), Ty: tyBool}
}

// coerceTo converts a numeric value to the sort of ty.
func (x *Exec) coerceTo(v Val, ty *Ty) *Term {
	want := x.w.sortOf(ty, x.model)
	if v.T.Sort == want {
		return v.T
	}
	switch want {
	case SReal:
		return x.toReal(v)
	case SXR:
		return x.toXR(v)
	case SBV32:
		return x.intToBV(v.T)
	case SInt:
		if v.Ty.K == TOpaque { // nil
			return v.T
		}
	case SSlice:
		if v.Ty.K == TOpaque && v.Ty.Name == "nil" {
			return nilSlice
		}
	}
	panic(fmt.Sprintf("cannot coerce %s:%s to %s", v.T, v.T.Sort, want))
}

func (c *CEnv) evalCall(e *CExpr) Val {
	x := c.x
	args := func() []Val {
		var vs []Val
		for _, a := range e.Args {
			vs = append(vs, c.eval(a))
		}
		return vs
	}
	need := func(n int) {
		if len(e.Args) != n {
			c.errf(e, "%s expects %d arguments", e.Name, n)
		}
	}
	fl := func(v Val) Val { // as float of the model
		if x.model.Float == SXR {
			return Val{T: x.toXR(v), Ty: tyFloat}
		}
		return Val{T: x.toReal(v), Ty: tyFloat}
	}
	switch e.Name {
	case "len":
		need(1)
		v := c.eval(e.Args[0])
		if v.Seq != nil {
			return Val{T: v.Seq.Len, Ty: tyInt}
		}
		if v.Ty.K == TSlice {
			return Val{T: slLen(v.T), Ty: tyInt}
		}
		if v.Ty.K == TOpaque && v.Ty.Go != nil {
			if mt, ok := v.Ty.Go.Underlying().(*types.Map); ok {
				_, lh := x.mapLenHeap(c.state(), mt)
				return Val{T: c.state().sel(lh, v.T), Ty: tyInt}
			}
		}
		c.errf(e, "len of non-slice")
	case "cap":
		need(1)
		v := c.eval(e.Args[0])
		return Val{T: slCap(v.T), Ty: tyInt}
	case "region":
		need(1)
		v := c.eval(e.Args[0])
		if v.Ty.K == TPtr {
			return Val{T: v.T, Ty: tyInt}
		}
		return Val{T: slReg(c.sliceHeader(e, v).T), Ty: tyInt}
	case "offset":
		need(1)
		v := c.sliceHeader(e, c.eval(e.Args[0]))
		return Val{T: slOff(v.T), Ty: tyInt}
	case "fresh":
		need(1)
		v := c.eval(e.Args[0])
		var r *Term
		if v.Ty.K == TPtr {
			r = v.T
		} else if v.Ty.K == TOpaque && v.Ty.Go != nil && v.T.Sort == SInt {
			if _, isMap := v.Ty.Go.Underlying().(*types.Map); !isMap {
				c.errf(e, "fresh: a slice, pointer or map expected")
			}
			r = v.T // a map handle
		} else {
			r = slReg(c.sliceHeader(e, v).T)
		}
		if c.oldAlloc == nil {
			c.errf(e, "fresh() not available here")
		}
		return Val{T: Ge(r, c.oldAlloc), Ty: tyBool}
	case "isnil":
		need(1)
		v := c.eval(e.Args[0])
		if v.Ty.K == TSlice {
			return Val{T: Eq(slReg(c.sliceHeader(e, v).T), IntLit(0)), Ty: tyBool}
		}
		return Val{T: Eq(v.T, IntLit(0)), Ty: tyBool}
	case "isfinite", "isnan", "isinf":
		need(1)
		v := c.eval(e.Args[0])
		if v.T.Sort == SXR {
			switch e.Name {
			case "isfinite":
				return Val{T: mk("xisfin", SBool, v.T), Ty: tyBool}
			case "isnan":
				return Val{T: mk("xisnan", SBool, v.T), Ty: tyBool}
			default:
				return Val{T: Or(Eq(v.T, mk("pinf", SXR)), Eq(v.T, mk("ninf", SXR))), Ty: tyBool}
			}
		}
		if e.Name == "isfinite" {
			return Val{T: tTrue, Ty: tyBool}
		}
		if e.Name == "isnan" {
			return Val{T: Eq(x.toReal(v), x.rnan()), Ty: tyBool}
		}
		return Val{T: tFalse, Ty: tyBool}
	case "val": // real value of a finite float
		need(1)
		v := c.eval(e.Args[0])
		if v.T.Sort == SXR {
			return Val{T: mk("val", SReal, v.T), Ty: tyReal}
		}
		return Val{T: x.toReal(v), Ty: tyReal}
	case "real":
		need(1)
		v := c.eval(e.Args[0])
		if v.T.Sort == SXR {
			return Val{T: mk("val", SReal, v.T), Ty: tyReal}
		}
		return Val{T: x.toReal(v), Ty: tyReal}
	case "float64":
		need(1)
		return fl(c.eval(e.Args[0]))
	case "int", "trunc":
		need(1)
		v := c.eval(e.Args[0])
		return Val{T: x.floatToInt(v), Ty: tyInt}
	case "min", "max":
		need(2)
		a, b := c.eval(e.Args[0]), c.eval(e.Args[1])
		ta, tb, ty := x.unify(a, b)
		pre := map[Sort]string{SInt: "i", SReal: "r", SXR: "x"}[ta.Sort]
		return Val{T: mk(pre+e.Name, ta.Sort, ta, tb), Ty: ty}
	case "abs":
		need(1)
		v := c.eval(e.Args[0])
		switch v.T.Sort {
		case SInt:
			return Val{T: Ite(Ge(v.T, IntLit(0)), v.T, Neg(v.T)), Ty: v.Ty}
		case SReal:
			return Val{T: mk("rabs", SReal, v.T), Ty: v.Ty}
		case SXR:
			return Val{T: mk("xabs", SXR, v.T), Ty: v.Ty}
		}
	case "floor", "ceil":
		need(1)
		v := c.eval(e.Args[0])
		if v.T.Sort == SXR {
			return Val{T: mk("x"+e.Name, SXR, v.T), Ty: v.Ty}
		}
		return Val{T: mk("r"+e.Name, SReal, x.toReal(v)), Ty: tyReal}
	case "ifloor": // integer floor of a real
		need(1)
		v := c.eval(e.Args[0])
		return Val{T: mk("to_int", SInt, x.toReal(v)), Ty: tyInt}
	case "iceil": // integer ceiling of a real: -floor(-v)
		need(1)
		v := c.eval(e.Args[0])
		return Val{T: Neg(mk("to_int", SInt, mk("-", SReal, x.toReal(v)))), Ty: tyInt}
	case "sqrt", "exp", "log", "erfc", "lgamma":
		need(1)
		return x.mathFn(e.Name, []Val{fl(c.eval(e.Args[0]))})
	case "pow":
		need(2)
		return x.mathFn("pow", []Val{fl(c.eval(e.Args[0])), fl(c.eval(e.Args[1]))})
	case "same":
		need(2)
		a := c.asSeq(e, c.eval(e.Args[0]))
		b := c.asSeq(e, c.eval(e.Args[1]))
		k := BoundVar{Name: x.freshBound("k"), Sort: SInt}
		kt := mk(k.Name, SInt)
		return Val{T: And(Eq(a.Seq.Len, b.Seq.Len),
			Forall([]BoundVar{k}, Implies(And(Le(IntLit(0), kt), Lt(kt, a.Seq.Len)),
				Eq(Select(a.T, IdxAdd(a.Seq.Off, kt)), Select(b.T, IdxAdd(b.Seq.Off, kt)))))), Ty: tyBool}
	case "allocated":
		// allocated(h): the handle / address h denotes an object that exists
		// in the current state (0 < h < allocation counter)
		need(1)
		h := c.eval(e.Args[0])
		if h.T.Sort != SInt {
			c.errf(e, "allocated: a map, pointer or other handle expected")
		}
		return Val{T: And(Lt(IntLit(0), h.T), Lt(h.T, c.state().alloc)), Ty: tyBool}
	case "visited":
		// visited(key) / visited(key, N): the key has been produced by the
		// range-over-map loop whose invariant this is (resp. by loop N)
		if len(e.Args) != 1 && len(e.Args) != 2 {
			c.errf(e, "visited expects a key and optionally a loop number")
		}
		k := c.eval(e.Args[0])
		name := "_seen"
		if len(e.Args) == 2 {
			if e.Args[1].Kind != "int" {
				c.errf(e, "visited: loop number expected")
			}
			name = "_seen" + e.Args[1].Name
		}
		var set *Term
		if c.lookup != nil {
			if v, ok := c.lookup(name); ok && v.T.Sort != SInt && v.T.Sort != SBool {
				set = v.T
			}
		}
		if set == nil {
			for o, t := range c.state().vars {
				if o.Name() == name && len(e.Args) == 2 {
					set = t
				}
			}
		}
		if set == nil {
			c.errf(e, "visited: not inside a range-over-map loop")
		}
		if len(e.Args) == 1 {
			// own loop: when an enclosing map loop exists, _seen resolves to the innermost through extra
		}
		return Val{T: Select(set, k.T), Ty: tyBool}
	case "haskey":
		need(2)
		m := c.eval(e.Args[0])
		k := c.eval(e.Args[1])
		mt := m.Ty.Go.Underlying().(*types.Map)
		return Val{T: x.mapHas(c.state(), m, k, mt), Ty: tyBool}
	case "ptrcast":
		// ptrcast(e, T): read an interface/opaque handle as a *T
		need(2)
		v := c.eval(e.Args[0])
		if e.Args[1].Kind != "id" {
			c.errf(e, "ptrcast: type name expected")
		}
		ty := c.cty(&CType{Kind: "named", Name: e.Args[1].Name})
		return Val{T: v.T, Ty: &Ty{K: TPtr, Elem: ty}}
	case "bit32":
		need(1)
		v := c.eval(e.Args[0])
		return Val{T: mk("shl32", SBV32, mk("#x00000001", SBV32), v.T), Ty: &Ty{K: TBV32, Unsigned: true, Bits: 32}}
	case "shr32", "shl32":
		need(2)
		a, b := c.eval(e.Args[0]), c.eval(e.Args[1])
		return Val{T: mk(e.Name, SBV32, a.T, b.T), Ty: a.Ty}
	case "uint":
		need(1)
		return c.eval(e.Args[0])
	case "tz32":
		need(1)
		v := c.eval(e.Args[0])
		return Val{T: mk("tz32", SInt, v.T), Ty: tyInt}
	case "tdiv", "tmod":
		need(2)
		a, b := c.eval(e.Args[0]), c.eval(e.Args[1])
		return Val{T: mk(e.Name, SInt, a.T, b.T), Ty: tyInt}
	case "fdiv": // floor division (SMT div) for positive divisors
		need(2)
		a, b := c.eval(e.Args[0]), c.eval(e.Args[1])
		return Val{T: mk("div", SInt, a.T, b.T), Ty: tyInt}
	case "fmod":
		need(2)
		a, b := c.eval(e.Args[0]), c.eval(e.Args[1])
		return Val{T: mk("mod", SInt, a.T, b.T), Ty: tyInt}
	case "feq": // IEEE equality
		need(2)
		a, b := c.eval(e.Args[0]), c.eval(e.Args[1])
		return Val{T: x.compare("==", a, b, true), Ty: tyBool}
	}
	// method-style pure call: recv.Method(args)
	if strings.HasPrefix(e.Name, ".") {
		// pkg.Func(args) for a deterministic function of another package
		if e.Args[0].Kind == "id" {
			if _, isB := c.bound[e.Args[0].Name]; !isB {
				known := false
				if c.lookup != nil {
					_, known = c.lookup(e.Args[0].Name)
				}
				if !known {
					key := e.Args[0].Name + "." + e.Name[1:]
					fc, ok := x.eng.contracts[key]
					if c.pkg != nil {
						if sc, have := x.eng.contracts[c.pkg.Name()+"@"+key]; have {
							fc, ok = sc, true
						}
					}
					if ok && fc.Pure {
						if fi := x.eng.funcs[key]; fi != nil {
							var vs []Val
							for _, a := range e.Args[1:] {
								vs = append(vs, c.eval(a))
							}
							return x.detCall(key, fi.Obj.Type().(*types.Signature), nil, vs, 0)
						}
					}
				}
			}
		}
		vs := args()
		recv := vs[0]
		// deterministic method of a repo type
		if recv.Ty.Go != nil {
			t := recv.Ty.Go
			if p, ok := t.Underlying().(*types.Pointer); ok {
				t = p.Elem()
			}
			if n, ok := types.Unalias(t).(*types.Named); ok && n.Obj().Pkg() != nil {
				key := n.Obj().Pkg().Name() + "." + n.Obj().Name() + "." + e.Name[1:]
				if fc, ok := x.eng.contracts[key]; ok && fc.Pure {
					if fi := x.eng.funcs[key]; fi != nil {
						return x.detCall(key, fi.Obj.Type().(*types.Signature), &recv, vs[1:], 0)
					}
				}
			}
		}
		return x.pureMethodCall(c, e, recv, e.Name[1:], vs[1:])
	}
	// spec function
	if sf, ok := x.eng.specs[e.Name]; ok {
		return c.callSpec(e, sf, args())
	}
	// deterministic repo function: F(args) denotes its result
	if c.pkg != nil {
		key := c.pkg.Name() + "." + e.Name
		if fc, ok := x.eng.contracts[key]; ok && fc.Pure {
			if fi := x.eng.funcs[key]; fi != nil {
				sig := fi.Obj.Type().(*types.Signature)
				if sig.Recv() == nil && sig.Results().Len() >= 1 {
					return x.detCall(key, sig, nil, args(), 0)
				}
			}
		}
	}
	// pure function-typed parameter: f(x)
	{
		fv, ok := c.bound[e.Name]
		if !ok && c.lookup != nil {
			fv, ok = c.lookup(e.Name)
		}
		if ok && fv.Ty.K == TOpaque && fv.Ty.Go != nil {
			if sig, isSig := fv.Ty.Go.Underlying().(*types.Signature); isSig {
				// a local closure with a deterministic contract denotes its contract function
				if id, isID := intVal(fv.T); isID {
					if cl := x.closures[id]; cl != nil {
						if fc, have := x.eng.contracts[cl.name]; have && fc.Pure {
							return x.detCall(cl.name, sig, nil, args(), 0)
						}
					}
				}
				vs := args()
				for i := range vs {
					pty := x.w.goTy(sig.Params().At(i).Type(), x.model.BV)
					vs[i] = Val{T: x.coerceTo(vs[i], pty), Ty: pty}
				}
				return x.applyFuncValue(fv, sig, vs)
			}
		}
	}
	c.errf(e, "unknown function %s", e.Name)
	panic("unreachable")
}

// floatToInt: Go conversion int(x) of a float (truncation).
func (x *Exec) floatToInt(v Val) *Term {
	switch v.T.Sort {
	case SInt:
		return v.T
	case SReal:
		if v.T.Op == "to_real" {
			return v.T.Args[0]
		}
		return mk("rtrunc", SInt, v.T)
	case SXR:
		if v.T.Op == "fin" && v.T.Args[0].Op == "to_real" {
			return v.T.Args[0].Args[0]
		}
		return mk("xtrunc", SInt, v.T)
	}
	panic("floatToInt: bad sort")
}

// flatten a value into the SMT arguments of a spec function parameter.
func (c *CEnv) specArgs(e *CExpr, v Val, pty *Ty) []*Term {
	x := c.x
	if pty.K == TSlice {
		s := c.asSeq(e, v)
		return []*Term{s.T, s.Seq.Off, s.Seq.Len}
	}
	if pty.K == TStruct && v.Ty.K == TPtr {
		v = c.deref(e, v)
	}
	return []*Term{x.coerceTo(v, pty)}
}

func (x *Exec) specParamSorts(sf *SpecFunc, c *CEnv) ([]Sort, []*Ty) {
	var sorts []Sort
	var tys []*Ty
	for _, p := range sf.Params {
		ty := c.cty(p.Type)
		tys = append(tys, ty)
		if ty.K == TSlice {
			es := x.w.sortOf(ty.Elem, x.model)
			sorts = append(sorts, ArrSort(SInt, es), SInt, SInt)
		} else {
			sorts = append(sorts, x.w.sortOf(ty, x.model))
		}
	}
	return sorts, tys
}

func (c *CEnv) callSpec(e *CExpr, sf *SpecFunc, args []Val) Val {
	x := c.x
	if len(args) != len(sf.Params) {
		c.errf(e, "spec %s expects %d arguments, got %d", sf.Name, len(sf.Params), len(args))
	}
	pe := &CEnv{x: x, pkg: x.eng.pkgTypes[sf.Pkg]}
	_, tys := x.specParamSorts(sf, pe)
	var flat []*Term
	for i, a := range args {
		flat = append(flat, c.specArgs(e, a, tys[i])...)
	}
	rty := pe.cty(sf.Ret)
	if !sf.Rec && !sf.Opaque && x.fc != nil && c.state() != nil && containsStr(x.fc.Abstract, sf.Name) {
		// abstracted in this function: an uninterpreted function of the
		// arguments and of the heaps the body reads (found by tracing one
		// expansion). Sound for proving: it only forgets the definition.
		x.heapTrace = map[string]bool{}
		flat = flat[:0]
		for i, a := range args {
			flat = append(flat, c.specArgs(e, a, tys[i])...)
		}
		x.specBodyInstanceIn(sf, flat, c)
		names := sortedKeys(x.heapTrace)
		x.heapTrace = nil
		st := c.state()
		var ts []*Term
		var sorts []Sort
		name := "abs_" + sf.Name
		for _, hn := range names {
			h := x.heap(st, hn, x.heapSorts[hn])
			ts = append(ts, h)
			sorts = append(sorts, h.Sort)
			name += "_" + hn
		}
		for _, f := range flat {
			ts = append(ts, f)
			sorts = append(sorts, f.Sort)
		}
		rs := x.w.sortOf(rty, x.model)
		x.sym.Func(name, sorts, rs)
		return Val{T: mk(name, rs, ts...), Ty: rty}
	}
	if !sf.Rec && !sf.Opaque {
		// non-recursive spec functions are expanded in place
		x.specOrigArgs = args
		t := x.specBodyInstanceIn(sf, flat, c)
		x.specOrigArgs = nil
		return Val{T: t, Ty: rty}
	}
	x.usedSpecs[sf.Name] = true
	name := "spec_" + sf.Name
	return Val{T: mk(name, x.w.sortOf(rty, x.model), flat...), Ty: rty}
}

// specBodyInstance evaluates sf's body with parameters bound to the given
// flattened argument terms.
func (x *Exec) specBodyInstance(sf *SpecFunc, flat []*Term) *Term {
	return x.specBodyInstanceIn(sf, flat, nil)
}

// specBodyInstanceIn: as specBodyInstance; a non-recursive spec function
// expanded at a use site may read the heap of that site (ctx).
func (x *Exec) specBodyInstanceIn(sf *SpecFunc, flat []*Term, ctx *CEnv) *Term {
	pe := &CEnv{x: x, pkg: x.eng.pkgTypes[sf.Pkg], specMode: true, bound: map[string]Val{}}
	if ctx != nil && !ctx.specMode {
		pe.specMode = false
		pe.st, pe.old, pe.inOld, pe.oldAlloc = ctx.st, ctx.old, ctx.inOld, ctx.oldAlloc
	}
	_, tys := x.specParamSorts(sf, pe)
	orig := x.specOrigArgs
	x.specOrigArgs = nil // applies to this expansion only, not to nested ones
	i := 0
	for k, p := range sf.Params {
		ty := tys[k]
		if ty.K == TSlice {
			sv := &SeqView{Off: flat[i+1], Len: flat[i+2], Elem: ty.Elem}
			if k < len(orig) && orig[k].T.Sort == SSlice {
				// expanded in place: region(), fresh(), isnil() of the
				// parameter refer to the slice passed
				sv.Slice = orig[k].T
			}
			pe.bound[p.Name] = Val{T: flat[i], Ty: ty, Seq: sv}
			i += 3
		} else {
			pe.bound[p.Name] = Val{T: flat[i], Ty: ty}
			i++
		}
	}
	rty := pe.cty(sf.Ret)
	v := pe.eval(sf.Body)
	return x.coerceTo(v, rty)
}

func containsStr(xs []string, s string) bool {
	for _, x := range xs {
		if x == s {
			return true
		}
	}
	return false
}

// sliceHeader: the slice header of v for region()/offset()/fresh()/isnil().
// A slice parameter of a spec function is only a sequence (array, offset,
// length) unless the spec is being expanded in place on a Go slice.
func (c *CEnv) sliceHeader(e *CExpr, v Val) Val {
	if v.Seq != nil && v.Seq.Slice != nil {
		return Val{T: v.Seq.Slice, Ty: v.Ty}
	}
	if v.T.Sort != SSlice {
		c.errf(e, "region/offset/fresh/isnil of a sequence parameter that is not a Go slice here (the spec is recursive, opaque or applied to a sequence)")
	}
	return v
}
