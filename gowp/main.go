package main

import (
	"encoding/json"
	"flag"
	"fmt"
	"os"
	"path/filepath"
	"sort"
	"strconv"
	"strings"
	"time"
)

type PropSpec struct {
	Funcs        []string `json:"funcs"`
	Lemmas       []string `json:"lemmas"`
	NotDecided   []string `json:"not_decided"`
	Explanation  string   `json:"explanation"`
	Bounded      []string `json:"bounded"`
	MinObls      int      `json:"min_obligations"`
	ExcludeKinds []string `json:"exclude_kinds"`
}

const verifDir = "/verif"

func main() {
	if len(os.Args) < 2 {
		fmt.Fprintln(os.Stderr, "usage: gowp check|func|list ...")
		os.Exit(2)
	}
	switch os.Args[1] {
	case "check":
		os.Exit(cmdCheck(os.Args[2:]))
	case "func":
		os.Exit(cmdFunc(os.Args[2:]))
	case "list":
		os.Exit(cmdList(os.Args[2:]))
	case "symbols":
		os.Exit(cmdSymbols(os.Args[2:]))
	}
	fmt.Fprintln(os.Stderr, "unknown command")
	os.Exit(2)
}

func cmdList(args []string) int {
	fs := flag.NewFlagSet("list", flag.ExitOnError)
	repo := fs.String("repo", "/repo", "repository")
	fs.Parse(args)
	e, err := loadEngine(*repo)
	if err != nil {
		fmt.Fprintln(os.Stderr, "load:", err)
		return 2
	}
	for _, k := range e.contractKeys() {
		fc := e.contracts[k]
		tag := ""
		if fc.Assume {
			tag = " [assumed]"
		}
		if fc.Inline {
			tag += " [inline]"
		}
		fmt.Printf("%s%s\n", k, tag)
	}
	return 0
}

func cmdFunc(args []string) int {
	fs := flag.NewFlagSet("func", flag.ExitOnError)
	repo := fs.String("repo", "/repo", "repository")
	dump := fs.String("dump", "", "dump SMT of obligations whose name contains this string")
	sec := fs.Int("t", 10, "solver timeout (s)")
	only := fs.String("only", "", "only solve obligations whose name contains this string")
	thorough := fs.Bool("thorough", false, "all solvers")
	keep := fs.Bool("keep", false, "keep SMT files")
	fs.Parse(args)
	e, err := loadEngine(*repo)
	if err != nil {
		fmt.Fprintln(os.Stderr, "load:", err)
		return 2
	}
	work, _ := os.MkdirTemp("", "gowp")
	if *keep {
		fmt.Println("work dir:", work)
	} else {
		defer os.RemoveAll(work)
	}
	rc := 0
	for _, key := range fs.Args() {
		var obls []*Obligation
		if lm, ok := e.lemmas[key]; ok {
			lo, err := e.lemmaObligations(lm)
			if err != nil {
				fmt.Println("ENGINE-ERROR", err)
				rc = 1
				continue
			}
			obls = lo
		} else {
			x, err := e.verifyFunc(key)
			if err != nil {
				fmt.Println("ENGINE-ERROR", err)
				rc = 1
				continue
			}
			obls = x.obls
			for _, n := range x.notes {
				fmt.Println("note:", n)
			}
		}
		if *only != "" {
			var f []*Obligation
			for _, o := range obls {
				if strings.Contains(o.Name, *only) {
					f = append(f, o)
				}
			}
			obls = f
		}
		res := solveAll(obls, work, *sec, *sec, *thorough, envInt("GOWP_JOBS", 8))
		for i, o := range obls {
			r := res[i]
			ok := r.Status == "unsat"
			if o.ExpectSat {
				ok = r.Status != "unsat"
			}
			mark := "ok  "
			if !ok {
				mark = "FAIL"
				rc = 1
			}
			fmt.Printf("%s %-70s %-8s %-14s %5dms %s\n", mark, o.Name, r.Status, r.Solver, r.Ms, o.Pos)
			if !ok && o.Src != "" {
				fmt.Printf("       clause: %s\n", o.Src)
			}
			if *dump != "" && strings.Contains(o.Name, *dump) {
				fmt.Println(o.Script(true))
				if r.Status == "sat" {
					fmt.Println(getModel(o, work, i, *sec))
				}
			}
		}
	}
	return rc
}

type oblReport struct {
	Name   string `json:"name"`
	Model  string `json:"model"`
	Status string `json:"status"`
	Solver string `json:"solver"`
	Ms     int64  `json:"ms"`
	Pos    string `json:"pos,omitempty"`
	Clause string `json:"clause,omitempty"`
}

func cmdCheck(args []string) int {
	fs := flag.NewFlagSet("check", flag.ExitOnError)
	repo := fs.String("repo", "/repo", "repository")
	prop := fs.String("prop", "", "property id")
	tier := fs.String("tier", "quick", "quick|thorough")
	fs.Parse(args)
	if t := os.Getenv("VERIF_TIER"); t == "quick" || t == "thorough" {
		*tier = t
	}
	seed := 0
	if s := os.Getenv("VERIF_SEED"); s != "" {
		seed, _ = strconv.Atoi(s)
	}
	t0 := time.Now()
	var props map[string]*PropSpec
	data, err := os.ReadFile(filepath.Join(verifDir, "props.json"))
	if err != nil {
		fmt.Fprintln(os.Stderr, err)
		return 2
	}
	if err := json.Unmarshal(data, &props); err != nil {
		fmt.Fprintln(os.Stderr, "props.json:", err)
		return 2
	}
	ps := props[*prop]
	if ps == nil {
		fmt.Fprintln(os.Stderr, "unknown property", *prop)
		return 2
	}
	replayDir := filepath.Join(verifDir, "work", "replay", *prop)
	os.RemoveAll(replayDir)
	os.MkdirAll(replayDir, 0o755)
	work := filepath.Join(verifDir, "work", "smt", *prop)
	os.RemoveAll(work)
	os.MkdirAll(work, 0o755)
	known := loadKnownFindings(filepath.Join(verifDir, "KNOWN_FINDINGS"))

	type failure struct {
		name, reason, detail string
		obl                  *Obligation
		res                  *SolveResult
		idx                  int
	}
	var failures []failure
	e, err := loadEngine(*repo)
	if err != nil {
		failures = append(failures, failure{name: "load", reason: "the repository or its contract files do not load", detail: err.Error()})
	}
	var obls []*Obligation
	var funcsOK []string
	trusted := map[string]bool{}
	var notes []string
	if err == nil {
		for _, key := range ps.Funcs {
			x, ferr := e.verifyFunc(key)
			if ferr != nil {
				failures = append(failures, failure{name: key + "#generate", reason: "obligations could not be generated (function left the verifiable subset, lost its anchor, or its contract no longer type-checks)", detail: ferr.Error()})
				continue
			}
			funcsOK = append(funcsOK, key)
			for _, o := range x.obls {
				skip := false
				for _, k := range ps.ExcludeKinds {
					if o.Kind == k {
						skip = true
					}
				}
				if !skip {
					obls = append(obls, o)
				}
			}
			for t := range x.trusted {
				trusted[t] = true
			}
			notes = append(notes, x.notes...)
		}
		for _, ln := range ps.Lemmas {
			lm := e.lemmas[ln]
			if lm == nil {
				failures = append(failures, failure{name: "lemma " + ln, reason: "lemma missing"})
				continue
			}
			lo, lerr := e.lemmaObligations(lm)
			if lerr != nil {
				failures = append(failures, failure{name: "lemma " + ln, reason: "lemma obligations could not be generated", detail: lerr.Error()})
				continue
			}
			obls = append(obls, lo...)
		}
	}
	quickSec, slowSec := 10, 10
	thorough := *tier == "thorough"
	if thorough {
		quickSec, slowSec = 60, 60
	}
	tGen := time.Since(t0).Seconds()
	// obligations recorded as known findings are expected to fail: no
	// extended second attempt for them
	noRetry = map[string]bool{}
	for _, o := range obls {
		if known.match(*prop, o.Name) != "" {
			noRetry[o.Name] = true
		}
	}
	res := solveAll(obls, work, quickSec, slowSec, thorough, envInt("GOWP_JOBS", 8))
	tSolve := time.Since(t0).Seconds() - tGen
	fmt.Fprintf(os.Stderr, "gowp: load+generate %.1fs, render+solve %.1fs\n", tGen, tSolve)
	var reports []oblReport
	discharged := 0
	var solverMs int64
	bySolver := map[string]int{}
	for i, o := range obls {
		r := res[i]
		ok := r.Status == "unsat"
		if o.ExpectSat {
			ok = r.Status != "unsat"
		}
		solverMs += r.Ms
		rep := oblReport{Name: o.Name, Model: o.X.model.Name, Status: r.Status, Solver: r.Solver, Ms: r.Ms, Pos: o.Pos, Clause: o.Src}
		if o.ExpectSat {
			rep.Status = "satisfiable-precondition(" + r.Status + ")"
		}
		reports = append(reports, rep)
		if ok {
			discharged++
			bySolver[r.Solver]++
			continue
		}
		rr := r
		reason := "obligation not discharged: solver answered " + r.Status
		if o.ExpectSat {
			reason = "vacuity: the function's preconditions are contradictory"
		}
		failures = append(failures, failure{name: o.Name, reason: reason, obl: o, res: &rr, idx: i})
	}
	if len(obls) < ps.MinObls && err == nil {
		failures = append(failures, failure{name: "obligation-count", reason: fmt.Sprintf("only %d obligations were generated, at least %d expected (vacuity guard)", len(obls), ps.MinObls)})
	}

	// report
	violations := 0
	var lines []string
	var knownHit []string
	for _, f := range failures {
		if kf := known.match(*prop, f.name); kf != "" {
			lines = append(lines, fmt.Sprintf("KNOWN-FINDING: %s", kf))
			knownHit = append(knownHit, f.name)
			continue
		}
		violations++
		path := filepath.Join(replayDir, sanitize(f.name)+".txt")
		var b strings.Builder
		fmt.Fprintf(&b, "property: %s\nfailed obligation: %s\nreason: %s\n", *prop, f.name, f.reason)
		if f.detail != "" {
			fmt.Fprintf(&b, "detail: %s\n", f.detail)
		}
		suffix := " no-failing-input-found"
		if f.obl != nil {
			fmt.Fprintf(&b, "source position: %s\ncontract clause: %s\nmodel: %s\nsolvers tried: %s\n", f.obl.Pos, f.obl.Src, f.obl.X.model.Name, strings.Join(f.res.Tried, " "))
			if f.res.Status == "sat" {
				model := getModel(f.obl, work, f.idx, 10)
				fmt.Fprintf(&b, "\n--- counterexample (solver model) ---\n%s\n", summariseModel(model))
				if rp := tryReplay(e, f.obl, model, replayDir); rp != nil {
					fmt.Fprintf(&b, "\n--- replay on the real code ---\n%s\n", rp.Log)
					if rp.Failed {
						suffix = ""
						fmt.Fprintf(&b, "replay test: %s\n", rp.TestFile)
					}
				}
			} else if f.obl.Kind != "vacuity" {
				// no model from the solver: search for a failing input near an
				// input that reaches this program point
				if rp := tryReplayMode(e, f.obl, replayDir, true); rp != nil {
					fmt.Fprintf(&b, "\n--- no solver counterexample; concretisation search on the real code ---\n%s\n", rp.Log)
					if rp.Failed {
						suffix = ""
						fmt.Fprintf(&b, "replay test: %s\n", rp.TestFile)
					}
				}
			}
			fmt.Fprintf(&b, "\n--- solver output ---\n%s\n", truncate(f.res.Output, 4000))
			fmt.Fprintf(&b, "\n--- SMT query: %s ---\n", filepath.Join(work, fmt.Sprintf("o%05d.smt2", f.idx)))
		}
		os.WriteFile(path, []byte(b.String()), 0o644)
		lines = append(lines, fmt.Sprintf("VIOLATION property=%s replay=%s%s", *prop, path, suffix))
	}

	// evidence
	var tb []string
	for t := range trusted {
		tb = append(tb, t)
	}
	sort.Strings(tb)
	tb = append(tb, "A6: the gowp translator (Go semantics as implemented by the VC generator)", "A7: SMT solvers are trusted for unsat", "A9: termination is not proved (partial correctness)")
	var samples []any
	for i, o := range obls {
		if len(samples) >= 3 {
			break
		}
		if o.Kind == "post" || o.Kind == "loop" {
			samples = append(samples, map[string]any{"name": o.Name, "clause": o.Src, "goal": truncate(o.Goal.String(), 600), "hypotheses": len(o.Hyps), "status": res[i].Status})
		}
	}
	if len(samples) == 0 {
		for i, o := range obls {
			if len(samples) >= 2 {
				break
			}
			samples = append(samples, map[string]any{"name": o.Name, "goal": truncate(o.Goal.String(), 600), "status": res[i].Status})
		}
	}
	if len(samples) == 0 {
		samples = append(samples, "no obligations generated")
	}
	models := map[string]bool{}
	for _, o := range obls {
		models[o.X.model.Name] = true
	}
	var assumptions []string
	assumptions = append(assumptions, tb...)
	if models["real"] || models["xreal"] {
		assumptions = append(assumptions, "A1/A2: float64 arithmetic on finite values is treated as exact real arithmetic (no rounding, no overflow); NaN/Inf special values are modelled only in model xreal")
	}
	assumptions = append(assumptions, "ints are mathematical integers (no wrap-around); unsigned subtraction is checked not to underflow")
	for _, n := range ps.NotDecided {
		assumptions = append(assumptions, "NOT DECIDED by this check: "+n)
	}
	ev := map[string]any{
		"property_id": *prop,
		"tier":        *tier,
		"seed":        seed,
		"level":       "proof",
		"coverage": map[string]any{
			"obligations":                len(obls) - len(knownHit),
			"known_findings_not_counted": knownHit,
			"discharged":                 discharged,
			"checker_cmd":                fmt.Sprintf("/verif/bin/gowp check -prop %s -tier %s", *prop, *tier),
			"trusted_base":               tb,
			"samples":                    samples,
			"functions_under_contract":   funcsOK,
			"lemmas":                     ps.Lemmas,
			"discharged_by_backend":      bySolver,
			"solver_ms_total":            solverMs,
			"per_obligation":             reports,
			"bounded":                    ps.Bounded,
			"not_decided_clauses":        ps.NotDecided,
			"explanation":                ps.Explanation,
			"engine_notes":               notes,
		},
		"assumptions": assumptions,
		"wall_s":      time.Since(t0).Seconds(),
		"violations":  violations,
	}
	os.MkdirAll(filepath.Join(verifDir, "evidence"), 0o755)
	out, _ := json.MarshalIndent(ev, "", " ")
	os.WriteFile(filepath.Join(verifDir, "evidence", *prop+".json"), out, 0o644)

	fmt.Printf("gowp: property %s tier %s: %d functions, %d obligations, %d discharged, %d violations, %.1fs\n",
		*prop, *tier, len(funcsOK), len(obls), discharged, violations, time.Since(t0).Seconds())
	for _, l := range lines {
		fmt.Println(l)
	}
	if violations > 0 {
		return 1
	}
	return 0
}

func truncate(s string, n int) string {
	if len(s) <= n {
		return s
	}
	return s[:n] + " …[truncated]"
}

func summariseModel(m string) string {
	// keep input constants (in_*, glob_*) first
	var keep []string
	lines := strings.Split(m, "\n")
	for i := 0; i < len(lines); i++ {
		l := lines[i]
		if strings.Contains(l, "define-fun in_") || strings.Contains(l, "define-fun glob_") {
			entry := strings.TrimSpace(l)
			for j := i + 1; j < len(lines) && j < i+6; j++ {
				if strings.Contains(lines[j], "define-fun") {
					break
				}
				entry += " " + strings.TrimSpace(lines[j])
			}
			keep = append(keep, entry)
		}
	}
	return strings.Join(keep, "\n") + "\n\n" + truncate(m, 6000)
}

// ---------------------------------------------------------------------

type knownFindings struct {
	entries []knownEntry
}

type knownEntry struct {
	prop, obligation, text string
}

func loadKnownFindings(path string) *knownFindings {
	kf := &knownFindings{}
	data, err := os.ReadFile(path)
	if err != nil {
		return kf
	}
	for _, l := range strings.Split(string(data), "\n") {
		l = strings.TrimSpace(l)
		if !strings.HasPrefix(l, "finding:") {
			continue
		}
		rest := strings.TrimSpace(l[len("finding:"):])
		var e knownEntry
		for _, f := range strings.Fields(rest) {
			if strings.HasPrefix(f, "property=") {
				e.prop = f[len("property="):]
			}
			if strings.HasPrefix(f, "obligation=") {
				e.obligation = f[len("obligation="):]
			}
		}
		e.text = rest
		if e.prop != "" && e.obligation != "" {
			kf.entries = append(kf.entries, e)
		}
	}
	return kf
}

func (k *knownFindings) match(prop, obligation string) string {
	for _, e := range k.entries {
		if e.prop == prop && e.obligation == obligation {
			return e.text
		}
	}
	return ""
}

func envInt(name string, def int) int {
	if v := os.Getenv(name); v != "" {
		n := 0
		fmt.Sscanf(v, "%d", &n)
		if n > 0 {
			return n
		}
	}
	return def
}
