package main

import (
	"fmt"
	"golang.org/x/tools/go/packages"
)

func main() {
	cfg := &packages.Config{Mode: packages.NeedName | packages.NeedFiles | packages.NeedSyntax | packages.NeedTypes | packages.NeedTypesInfo | packages.NeedImports | packages.NeedDeps, Dir: "/repo", BuildFlags: []string{"-tags=verif"}}
	pkgs, err := packages.Load(cfg, "./...")
	fmt.Println(len(pkgs), err)
	for _, p := range pkgs {
		fmt.Println(p.PkgPath, len(p.Syntax), p.Errors)
	}
}
