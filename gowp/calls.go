package main

import (
	"fmt"
	"go/ast"
	"go/token"
	"go/types"
	"strings"
)

// call evaluates a call expression and returns its results.
func (x *Exec) call(e *ast.CallExpr, st *State) []Val {
	info := x.info()
	// conversion
	if tv, ok := info.Types[e.Fun]; ok && tv.IsType() {
		to := x.w.goTy(tv.Type, x.model.BV)
		v := x.expr(e.Args[0], st)
		return []Val{x.convert(to, v, e)}
	}
	// builtin
	fun := e.Fun
	for {
		if p, ok := fun.(*ast.ParenExpr); ok {
			fun = p.X
			continue
		}
		break
	}
	if id, ok := fun.(*ast.Ident); ok {
		if b, ok := info.ObjectOf(id).(*types.Builtin); ok {
			return x.builtin(b.Name(), e, st)
		}
	}
	// static callee?
	var callee *types.Func
	var recvExpr ast.Expr
	switch f := fun.(type) {
	case *ast.Ident:
		callee, _ = info.ObjectOf(f).(*types.Func)
	case *ast.SelectorExpr:
		if sel := info.Selections[f]; sel != nil {
			if sel.Kind() == types.MethodVal {
				callee, _ = sel.Obj().(*types.Func)
				recvExpr = f.X
			}
		} else {
			callee, _ = info.ObjectOf(f.Sel).(*types.Func) // pkg.Func
		}
	}
	if callee != nil {
		return x.callFunc(callee, recvExpr, e, st)
	}
	// recursion: a literal verified on its own calling the variable it is bound to
	if id, ok := fun.(*ast.Ident); ok && x.selfVar != nil && info.ObjectOf(id) == types.Object(x.selfVar) && len(x.frames) == 1 {
		sig := x.fi.Obj.Type().(*types.Signature)
		var args []Val
		for _, a := range e.Args {
			args = append(args, x.expr(a, st))
		}
		x.setPendingCaptured(x.fi.Decl.Body, x.info(), x.fi.Decl.Body.Pos(), x.fi.Decl.Body.End(), st)
		defer func() { x.pendingCaptured, x.pendingCapObjs = nil, nil }()
		return x.applyContract(x.fc, x.key, sig, nil, args, e, st)
	}
	// call of a function value
	fv := x.expr(fun, st)
	sig, _ := info.Types[fun].Type.Underlying().(*types.Signature)
	if sig == nil {
		x.unsupported(e, "call of non-function")
	}
	var args []Val
	for _, a := range e.Args {
		args = append(args, x.expr(a, st))
	}
	// known closure?
	if id, ok := intVal(fv.T); ok {
		if cl := x.closures[id]; cl != nil {
			return x.inlineClosure(cl, args, e, st)
		}
	}
	x.noteTrusted("A8: function-typed values are pure (uninterpreted) functions of their arguments")
	r := x.applyFuncValue(fv, sig, args)
	if sig.Results().Len() == 0 {
		return nil
	}
	return []Val{r}
}

func (x *Exec) applyFuncValue(fv Val, sig *types.Signature, args []Val) Val {
	if sig.Results().Len() != 1 {
		panic(engineError{"function value with other than one result is not supported"})
	}
	rty := x.w.goTy(sig.Results().At(0).Type(), x.model.BV)
	name := "app"
	sorts := []Sort{SInt}
	ts := []*Term{fv.T}
	for i, a := range args {
		pty := x.w.goTy(sig.Params().At(i).Type(), x.model.BV)
		t := x.coerceTo(a, pty)
		sorts = append(sorts, t.Sort)
		ts = append(ts, t)
		name += "_" + sortTag(t.Sort)
	}
	rs := x.w.sortOf(rty, x.model)
	name += "__" + sortTag(rs)
	x.sym.Func(name, sorts, rs)
	return Val{T: mk(name, rs, ts...), Ty: rty}
}

func (x *Exec) callFunc(callee *types.Func, recvExpr ast.Expr, e *ast.CallExpr, st *State) []Val {
	sig := callee.Type().(*types.Signature)
	pkgPath := ""
	if callee.Pkg() != nil {
		pkgPath = callee.Pkg().Path()
	}
	// receiver
	var recv *Val
	var recvAddrOf ast.Expr // local struct passed by implicit address
	if recvExpr != nil {
		rt := sig.Recv().Type()
		_, wantPtr := rt.Underlying().(*types.Pointer)
		if types.IsInterface(rt) {
			v := x.expr(recvExpr, st)
			recv = &v
		} else {
			v := x.expr(recvExpr, st)
			switch {
			case wantPtr && v.Ty.K != TPtr:
				// implicit &x: copy-in / copy-out through a fresh cell
				addr := x.allocCell(st, v)
				pv := Val{T: addr, Ty: &Ty{K: TPtr, Elem: v.Ty, Go: rt}}
				recv = &pv
				recvAddrOf = recvExpr
			case !wantPtr && v.Ty.K == TPtr:
				dv := x.load(st, v, e)
				recv = &dv
			default:
				recv = &v
			}
		}
	}
	var args []Val
	if sig.Variadic() && !e.Ellipsis.IsValid() {
		x.unsupported(e, "variadic call without ... is not supported")
	}
	for i, a := range e.Args {
		v := x.expr(a, st)
		if lit, ok := a.(*ast.FuncLit); ok {
			x.summarizeClosure(lit, v, st)
		}
		// implicit conversion to an interface-typed parameter
		if i < sig.Params().Len() {
			pty := x.w.goTy(sig.Params().At(i).Type(), x.model.BV)
			if pty.K == TOpaque && v.Ty.K != TOpaque {
				cv := v
				v = x.toInterface(v, pty, a)
				if tv, ok := x.info().Types[a]; ok && tv.Type != nil {
					x.dispatchLink(st, v, cv, tv.Type, sig.Params().At(i).Type())
				}
			}
		}
		args = append(args, v)
	}
	var res []Val
	switch {
	case pkgPath == "math" || pkgPath == "math/bits":
		res = x.mathCall(callee.Name(), args, e, st)
	default:
		res = x.callByKey(callee, recv, args, e, st)
	}
	if recvAddrOf != nil {
		// copy back
		_, h := x.ptrHeapOf(st, recv.Ty.Elem)
		x.assign(recvAddrOf, Val{T: st.sel(h, recv.T), Ty: recv.Ty.Elem}, st)
	}
	return res
}

func (x *Exec) callByKey(callee *types.Func, recv *Val, args []Val, e *ast.CallExpr, st *State) []Val {
	sig := callee.Type().(*types.Signature)
	key := funcKey(callee)
	if callee.Pkg() != nil && x.eng.pkgByName[callee.Pkg().Name()] == nil || (callee.Pkg() != nil && x.eng.pkgByName[callee.Pkg().Name()].Types != callee.Pkg()) {
		// non-repo package: key by package name
		key = funcKey(callee)
	}
	// interface method
	if sig.Recv() != nil && types.IsInterface(sig.Recv().Type()) {
		if x.eng.pures[key] {
			v := x.pureCall(key, sig, recv, args)
			// a pure method returns the same value at any time, so storage it
			// returns existed when the function under verification was entered
			st.assume(x.typeInv(v.T, v.Ty, x.entry0Alloc()))
			return []Val{v}
		}
	}
	fc := x.eng.contracts[x.cur().pkg.Types.Name()+"@"+key]
	if fc == nil {
		fc = x.eng.contracts[key]
	}
	// model variant: Key@model restates a contract for callers in another model
	if fc != nil && !fc.Inline {
		if v, ok := x.eng.contracts[key+"@"+x.model.Name]; ok && modelByName(fc.Model).Float != x.model.Float {
			fc = v
		}
	}
	if fc == nil {
		if x.eng.pures[key] {
			return []Val{x.pureCall(key, sig, recv, args)}
		}
		// a repo function without a contract (typically a helper extracted
		// by a refactoring): execute its body in place, like an `inline`
		// contract. Loops inside it have no invariants and stay unsupported.
		if fi := x.eng.funcs[key]; fi != nil && fi.Decl != nil && fi.Decl.Body != nil {
			x.notes = append(x.notes, x.key+": "+key+" has no contract and is executed in place")
			return x.inlineFunc(fi, &FuncContract{Inline: true, Pkg: fi.Pkg.Types.Name()}, recv, args, e, st)
		}
		x.unsupported(e, "call to %s, which has no contract", key)
	}
	if !fc.Inline && !fc.Assume && fc.Model != "" && modelByName(fc.Model).Float != x.model.Float && x.usesFloat(sig) {
		// the callee is specified in another arithmetic model and has no
		// restated variant: execute its body in the caller's model
		if fi := x.eng.funcs[key]; fi != nil {
			x.notes = append(x.notes, x.key+": "+key+" inlined (specified in model "+fc.Model+", caller in "+x.model.Name+")")
			return x.inlineFunc(fi, fc, recv, args, e, st)
		}
	}
	if fc.Inline {
		fi := x.eng.funcs[key]
		if fi == nil {
			x.unsupported(e, "inline callee %s not found", key)
		}
		return x.inlineFunc(fi, fc, recv, args, e, st)
	}
	return x.applyContract(fc, key, sig, recv, args, e, st)
}

// detCall: the i-th result of a function whose contract is marked
// deterministic, as an uninterpreted function of receiver and arguments.
func (x *Exec) detCall(key string, sig *types.Signature, recv *Val, args []Val, i int) Val {
	var sorts []Sort
	var ts []*Term
	if recv != nil {
		rt := recv.T
		// a pointer receiver passed where the method has a value receiver
		sorts = append(sorts, rt.Sort)
		ts = append(ts, rt)
	}
	for j, a := range args {
		pty := x.w.goTy(sig.Params().At(j).Type(), x.model.BV)
		if pty.K == TOpaque && a.Ty.K != TOpaque {
			a = x.toInterface(a, pty, nil)
		}
		t := x.coerceTo(a, pty)
		sorts = append(sorts, t.Sort)
		ts = append(ts, t)
	}
	rty := x.w.goTy(sig.Results().At(i).Type(), x.model.BV)
	fn := fmt.Sprintf("det_%s_%d", sanitize(key), i)
	x.sym.Func(fn, sorts, x.w.sortOf(rty, x.model))
	return Val{T: mk(fn, x.w.sortOf(rty, x.model), ts...), Ty: rty}
}

// pureCall: uninterpreted function of (receiver, args).
func (x *Exec) pureCall(key string, sig *types.Signature, recv *Val, args []Val) Val {
	x.noteTrusted("assumed pure: " + key)
	name := "pure_" + sanitize(key)
	var sorts []Sort
	var ts []*Term
	if recv != nil {
		sorts = append(sorts, recv.T.Sort)
		ts = append(ts, recv.T)
	}
	for i, a := range args {
		pty := x.w.goTy(sig.Params().At(i).Type(), x.model.BV)
		t := x.coerceTo(a, pty)
		sorts = append(sorts, t.Sort)
		ts = append(ts, t)
	}
	if sig.Results().Len() != 1 {
		panic(engineError{"pure function " + key + " must have exactly one result"})
	}
	rty := x.w.goTy(sig.Results().At(0).Type(), x.model.BV)
	rs := x.w.sortOf(rty, x.model)
	x.sym.Func(name, sorts, rs)
	return Val{T: mk(name, rs, ts...), Ty: rty}
}

// pureMethodCall: contract-level recv.Method(args).
func (x *Exec) pureMethodCall(c *CEnv, e *CExpr, recv Val, method string, args []Val) Val {
	var t types.Type = recv.Ty.Go
	if t == nil {
		c.errf(e, "method call on value without Go type")
	}
	ms := types.NewMethodSet(t)
	var fn *types.Func
	for i := 0; i < ms.Len(); i++ {
		if ms.At(i).Obj().Name() == method {
			fn, _ = ms.At(i).Obj().(*types.Func)
		}
	}
	if fn == nil {
		if p, ok := t.(*types.Pointer); ok {
			ms = types.NewMethodSet(p)
		} else {
			ms = types.NewMethodSet(types.NewPointer(t))
		}
		for i := 0; i < ms.Len(); i++ {
			if ms.At(i).Obj().Name() == method {
				fn, _ = ms.At(i).Obj().(*types.Func)
			}
		}
	}
	if fn == nil {
		c.errf(e, "no method %s", method)
	}
	key := funcKey(fn)
	if !x.eng.pures[key] {
		c.errf(e, "method %s is not declared 'assume pure'", key)
	}
	return x.pureCall(key, fn.Type().(*types.Signature), &recv, args)
}

// dispatchLink: a value cv of concrete type ct has just been boxed into the
// interface type it (handle boxed). For every method of the interface that is
// declared 'assume pure' and whose implementation on ct has a verified
// contract marked 'dispatch', the pure interface function applied to the
// handle is tied to that contract: for all arguments, requires ==> ensures
// with result := I.M(handle, args), evaluated on the storage as it is now.
// (The purity declaration already says the result does not depend on the
// state; the link says which function it is. Listed as an assumption.)
func (x *Exec) dispatchLink(st *State, boxed Val, cv Val, ct, it types.Type) {
	iface, ok := it.Underlying().(*types.Interface)
	if !ok {
		return
	}
	for i := 0; i < iface.NumMethods(); i++ {
		im := iface.Method(i)
		ikey := funcKey(im)
		if !x.eng.pures[ikey] {
			continue
		}
		obj, _, indirect := types.LookupFieldOrMethod(ct, false, im.Pkg(), im.Name())
		cm, ok := obj.(*types.Func)
		if !ok || indirect {
			continue
		}
		ckey := funcKey(cm)
		fc := x.eng.contracts[ckey]
		if fc == nil || !fc.Dispatch || fc.Assume || fc.Inline {
			continue
		}
		sig := cm.Type().(*types.Signature)
		if _, ptrRecv := sig.Recv().Type().(*types.Pointer); ptrRecv != (cv.Ty.K == TPtr) {
			continue
		}
		if fc.Model != "" && modelByName(fc.Model).Float != x.model.Float && x.usesFloat(sig) {
			continue
		}
		names := map[string]Val{}
		rn := sig.Recv().Name()
		if rn == "" || rn == "_" {
			rn = "self"
		}
		names[rn] = cv
		var bvs []BoundVar
		var avs []Val
		okSorts := true
		for j := 0; j < sig.Params().Len(); j++ {
			p := sig.Params().At(j)
			pty := x.w.goTy(p.Type(), x.model.BV)
			if pty.K != TInt || pty.Unsigned {
				okSorts = false
				break
			}
			b := BoundVar{Name: x.freshBound("d_" + p.Name()), Sort: SInt}
			bvs = append(bvs, b)
			v := Val{T: mk(b.Name, SInt), Ty: pty}
			avs = append(avs, v)
			names[p.Name()] = v
		}
		if !okSorts || sig.Results().Len() != 1 {
			continue
		}
		r := x.pureCall(ikey, im.Type().(*types.Signature), &boxed, avs)
		names["result"] = r
		if rv := sig.Results().At(0); rv.Name() != "" && rv.Name() != "_" {
			names[rv.Name()] = r
		}
		if len(fc.Results) == 1 {
			names[fc.Results[0]] = r
		}
		look := func(n string) (Val, bool) { v, ok := names[n]; return v, ok }
		env := &CEnv{x: x, st: st, old: st, lookup: look, oldLook: look, pkg: x.eng.pkgTypes[fc.Pkg], oldAlloc: st.alloc}
		for _, ld := range fc.Lets {
			names[ld.Name] = env.eval(ld.E)
		}
		var pre, post []*Term
		for _, c := range fc.Requires {
			pre = append(pre, env.evalBool(c.E))
		}
		for _, c := range fc.Ensures {
			post = append(post, env.evalBool(c.E))
		}
		body := Implies(And(pre...), And(post...))
		if len(bvs) > 0 {
			body = Forall(bvs, body, r.T)
		}
		st.assume(body)
		x.noteTrusted("dispatch: " + ikey + " on a boxed " + types.TypeString(ct, func(p *types.Package) string { return p.Name() }) + " is " + ckey + " (verified contract), evaluated on the storage as it is when the value is boxed")
	}
}

// applyContract: assert requires, havoc assigns, assume ensures.
func (x *Exec) applyContract(fc *FuncContract, key string, sig *types.Signature, recv *Val, args []Val, e *ast.CallExpr, st *State) []Val {
	if fc.Assume {
		x.noteTrusted("assumed contract: " + key + trustedNote(fc))
	}
	if fc.MayPanic != "" {
		x.noteTrusted("callee " + key + " may panic (allowed by its contract; what is proved here holds when it returns): " + fc.MayPanic)
	}
	if fc.Model != "" && modelByName(fc.Model).Float != x.model.Float && x.usesFloat(sig) {
		x.unsupported(e, "callee %s is specified in model %s, caller in %s", key, fc.Model, x.model.Name)
	}
	names := map[string]Val{}
	if recv != nil && sig.Recv() != nil {
		rn := sig.Recv().Name()
		if rn == "" || rn == "_" {
			rn = "self"
		}
		names[rn] = *recv
	}
	for i := 0; i < sig.Params().Len(); i++ {
		p := sig.Params().At(i)
		pty := x.w.goTy(p.Type(), x.model.BV)
		names[p.Name()] = Val{T: x.coerceTo(args[i], pty), Ty: pty}
	}
	oldNames := map[string]Val{}
	capObjs := x.pendingCapObjs
	for n, v := range x.pendingCaptured {
		if _, have := names[n]; !have {
			names[n] = v
			oldNames[n] = v
		}
	}
	x.pendingCaptured, x.pendingCapObjs = nil, nil
	calleePkg := x.eng.pkgTypes[fc.Pkg]
	if strings.Contains(key, ".") {
		pn := key[:strings.Index(key, ".")]
		if p, ok := x.eng.pkgTypes[pn]; ok {
			calleePkg = p
		}
	}
	pre := st.clone()
	look := func(n string) (Val, bool) { v, ok := names[n]; return v, ok }
	oldLook := func(n string) (Val, bool) {
		if v, ok := oldNames[n]; ok {
			return v, true
		}
		v, ok := names[n]
		return v, ok
	}
	env := &CEnv{x: x, st: st, old: pre, lookup: look, oldLook: oldLook, pkg: calleePkg, oldAlloc: pre.alloc}
	for _, ld := range fc.Lets {
		names[ld.Name] = env.eval(ld.E)
	}
	site := x.nextOrd("call:" + key)
	for i, r := range fc.Requires {
		label := r.Label
		if label == "" {
			label = fmt.Sprintf("r%d", i+1)
		}
		x.oblige(st, "pre", fmt.Sprintf("%s@%s%d", label, shortKey(key), site), env.evalBool(r.E), e.Pos(), r.Src)
		st.assume(env.evalBool(r.E))
	}
	// havoc
	preEnv := &CEnv{x: x, st: pre, old: pre, lookup: look, pkg: calleePkg, oldAlloc: pre.alloc}
	targets := x.assignTargets(preEnv, fc.Assigns)
	for _, t := range targets {
		if t.global != nil {
			gv := t.global.(*types.Var)
			x.readGlobal(st, gv)
			st.globals[t.global] = x.sym.Fresh("glob_"+gv.Name(), x.w.sortOf(x.w.goTy(gv.Type(), x.model.BV), x.model))
			continue
		}
		hs := x.heapSorts[t.heap]
		h := x.heap(st, t.heap, hs)
		cell := x.sym.Fresh("cell_"+t.heap, elemSortOfArray(hs))
		if t.field >= 0 {
			// only the listed fields change
			old := st.sel(h, t.key)
			nv := old
			for j := range t.ty.Struct.Fields {
				if t.fieldSet[j] {
					nv = x.structSet(nv, t.ty, j, x.structGet(cell, t.ty, j))
				}
			}
			x.recordWrite(st, t.heap, t.key, nv, old, t.ty, e)
			st.heaps[t.heap] = Store(h, t.key, nv)
		} else {
			x.recordWrite(st, t.heap, t.key, nil, nil, nil, e)
			if t.lo != nil && strings.HasPrefix(t.heap, "H_") && fc.Assume {
				// ASSUMED contract with assigns x[*] (library routines such as
				// sort.Ints): only the cells of x change, the rest of its region
				// (other windows of the same backing array) is kept. Part of the
				// trusted contract. For verified callees the frame check is per
				// region, so callers may not assume this of them.
				k := BoundVar{Name: x.freshBound("k"), Sort: SInt}
				kt := mk(k.Name, SInt)
				st.assume(Forall([]BoundVar{k}, Implies(Or(Lt(kt, t.lo), Ge(kt, t.hi)),
					Eq(Select(cell, kt), Select(st.sel(h, t.key), kt))), Select(cell, kt)))
			}
			st.heaps[t.heap] = Store(h, t.key, cell)
		}
	}
	if !fc.HasAssigns {
		x.unsupported(e, "callee %s has no assigns clause", key)
	}
	na := x.sym.Fresh("alloc", SInt)
	st.assume(Ge(na, st.alloc))
	st.setAllocBase(na)
	// captured variables assigned by the callee literal: new values
	for n, obj := range capObjs {
		ty := x.w.goTy(obj.Type(), x.model.BV)
		f := x.sym.Fresh("cap_"+n, x.w.sortOf(ty, x.model))
		st.assume(x.typeInv(f, ty, st.alloc))
		st.vars[obj] = f
		names[n] = Val{T: f, Ty: ty}
	}
	// results
	var res []Val
	fr := &frame{sig: sig}
	for i := 0; i < sig.Results().Len(); i++ {
		rv := sig.Results().At(i)
		if rv.Name() == "" || rv.Name() == "_" {
			rv = types.NewVar(token.NoPos, nil, fmt.Sprintf("result%d", i), rv.Type())
		}
		fr.resVars = append(fr.resVars, rv)
	}
	rnames := resultNames(fc, fr)
	for i, rv := range fr.resVars {
		rty := x.w.goTy(rv.Type(), x.model.BV)
		var t *Term
		if fc.Pure {
			// deterministic: the result is a function of the argument values
			// (slices and pointers by identity; valid while the storage they
			// refer to is not modified, see DESIGN A8)
			var avs []Val
			for j := range args {
				avs = append(avs, names[sig.Params().At(j).Name()])
			}
			t = x.detCall(key, sig, recv, avs, i).T
		} else {
			t = x.sym.Fresh("r_"+shortKey(key), x.w.sortOf(rty, x.model))
		}
		st.assume(x.typeInv(t, rty, st.alloc))
		v := Val{T: t, Ty: rty}
		res = append(res, v)
		names[rnames[i]] = v
		if len(fr.resVars) == 1 {
			names["result"] = v
		}
	}
	for _, w := range fc.Witnesses {
		wn := witnessName(w.Name)
		if _, ok := names[wn]; !ok {
			names[wn] = x.freshWitness(w)
		}
	}
	n0 := len(st.pc)
	for _, en := range fc.Ensures {
		st.assume(env.evalBool(en.E))
	}
	// postcondition facts of calls are droppable at a `forget` loop head like
	// invariant facts (quantified facts about earlier heap versions)
	if x.invFacts == nil {
		x.invFacts = map[*Term]bool{}
	}
	for _, t := range st.pc[n0:] {
		if t.Op == "forall" || t.Op == "exists" || strings.Contains(t.String(), "(forall ") {
			x.invFacts[t] = true
		}
	}
	return res
}

func trustedNote(fc *FuncContract) string {
	if fc.Trusted != "" {
		return " (" + fc.Trusted + ")"
	}
	return ""
}

func shortKey(key string) string {
	if k := strings.Index(key, "."); k >= 0 {
		key = key[k+1:]
	}
	return sanitize(key)
}

func (x *Exec) usesFloat(sig *types.Signature) bool {
	has := false
	var chk func(t types.Type, depth int)
	chk = func(t types.Type, depth int) {
		if depth > 4 {
			return
		}
		switch u := t.Underlying().(type) {
		case *types.Basic:
			if u.Info()&types.IsFloat != 0 {
				has = true
			}
		case *types.Slice:
			chk(u.Elem(), depth+1)
		case *types.Pointer:
			chk(u.Elem(), depth+1)
		case *types.Struct:
			for i := 0; i < u.NumFields(); i++ {
				chk(u.Field(i).Type(), depth+1)
			}
		}
	}
	if sig.Recv() != nil {
		chk(sig.Recv().Type(), 0)
	}
	for i := 0; i < sig.Params().Len(); i++ {
		chk(sig.Params().At(i).Type(), 0)
	}
	for i := 0; i < sig.Results().Len(); i++ {
		chk(sig.Results().At(i).Type(), 0)
	}
	return has
}

// inlineFunc executes the callee body in place.
func (x *Exec) inlineFunc(fi *FuncInfo, fc *FuncContract, recv *Val, args []Val, e ast.Node, st *State) []Val {
	if x.depth > 8 {
		x.unsupported(e, "inline depth exceeded (recursive inline?)")
	}
	sig := fi.Obj.Type().(*types.Signature)
	fr := &frame{key: fi.Key, pkg: fi.Pkg, info: fi.Pkg.TypesInfo, fc: fc, sig: sig, body: fi.Decl.Body}
	return x.inlineBody(fr, fi.Decl.Body, sig.Recv(), recv, sig, args, e, st)
}

func (x *Exec) inlineBody(fr *frame, body *ast.BlockStmt, recvVar *types.Var, recv *Val, sig *types.Signature, args []Val, e ast.Node, st *State) []Val {
	x.findHeapified(body, fr.info)
	x.frames = append(x.frames, fr)
	x.depth++
	defer func() {
		x.frames = x.frames[:len(x.frames)-1]
		x.depth--
	}()
	bindP := func(v *types.Var, val Val) {
		if v == nil || v.Name() == "" || v.Name() == "_" {
			return
		}
		ty := x.w.goTy(v.Type(), x.model.BV)
		t := x.coerceTo(val, ty)
		if x.heapified[v] {
			st.vars[v] = x.allocCell(st, Val{T: t, Ty: ty})
		} else {
			st.vars[v] = t
		}
	}
	if recvVar != nil && recv != nil {
		bindP(recvVar, *recv)
	}
	for i := 0; i < sig.Params().Len(); i++ {
		bindP(sig.Params().At(i), args[i])
	}
	x.setupResults(fr, st)
	out := x.block(body.List, st)
	if len(out.breaks) > 0 || len(out.continues) > 0 {
		x.unsupported(e, "break/continue escaped inlined body")
	}
	rets := fr.rets
	if out.normal != nil {
		rets = append(rets, out.normal)
	}
	m := x.mergeAll(rets)
	if m == nil {
		// callee never returns on this path (always panics)
		st.pc = append(st.pc, tFalse)
		var res []Val
		for _, rv := range fr.resVars {
			ty := x.w.goTy(rv.Type(), x.model.BV)
			res = append(res, Val{T: x.zero(ty), Ty: ty})
		}
		return res
	}
	var res []Val
	for _, rv := range fr.resVars {
		res = append(res, Val{T: m.vars[rv], Ty: x.w.goTy(rv.Type(), x.model.BV)})
	}
	// keep caller-visible variables; callee locals are dropped lazily
	*st = *m
	return res
}

// ---------------------------------------------------------------------
// closures

func (x *Exec) funcLit(e *ast.FuncLit, st *State) Val {
	x.closureID++
	id := 900000 + x.closureID
	fr := x.cur()
	fr.funcLits++
	ord := fr.funcLits
	if fr.body != nil {
		// number literals in source order within the enclosing function
		cnt := 0
		ast.Inspect(fr.body, func(nd ast.Node) bool {
			if l, ok := nd.(*ast.FuncLit); ok {
				cnt++
				if l == e {
					ord = cnt
				}
			}
			return true
		})
	}
	cl := &closure{lit: e, fr: fr, name: fmt.Sprintf("%s#lit%d", fr.key, ord)}
	x.closures[id] = cl
	x.closureCreationPre(cl, st)
	return Val{T: IntLit(id), Ty: x.tyOf(e)}
}

// setPendingCaptured: the values of the variables a literal captures, by name
// (visible to the literal's contract at a call), and which of them the
// literal assigns (in/out variables of the call).
func (x *Exec) setPendingCaptured(body *ast.BlockStmt, info *types.Info, from, to token.Pos, st *State) {
	x.pendingCaptured = map[string]Val{}
	x.pendingCapObjs = map[string]*types.Var{}
	assigned := map[types.Object]bool{}
	ast.Inspect(body, func(nd ast.Node) bool {
		mark := func(e ast.Expr) {
			if id, ok := e.(*ast.Ident); ok {
				if o := info.ObjectOf(id); o != nil {
					assigned[o] = true
				}
			}
		}
		switch s := nd.(type) {
		case *ast.AssignStmt:
			for _, l := range s.Lhs {
				mark(l)
			}
		case *ast.IncDecStmt:
			mark(s.X)
		}
		return true
	})
	ast.Inspect(body, func(nd ast.Node) bool {
		if id, ok := nd.(*ast.Ident); ok {
			if v, ok := info.Uses[id].(*types.Var); ok && !v.IsField() {
				if t, have := st.vars[v]; have && (v.Pos() < from || v.Pos() > to) {
					ty := x.w.goTy(v.Type(), x.model.BV)
					if x.heapified[v] {
						_, h := x.ptrHeapOf(st, ty)
						t = st.sel(h, t)
					} else if assigned[v] {
						x.pendingCapObjs[v.Name()] = v
					}
					x.pendingCaptured[v.Name()] = Val{T: t, Ty: ty}
				}
			}
		}
		return true
	})
}

// closureCreationPre: a literal with a contract of its own may be returned or
// stored and called later. The parts of its precondition that speak only about
// captured variables must therefore hold where the literal is created
// (clauses labelled given-* are assumptions about the data and are exempt).
func (x *Exec) closureCreationPre(cl *closure, st *State) {
	fc, ok := x.eng.contracts[cl.name]
	if !ok || fc.Inline || len(fc.Requires) == 0 {
		return
	}
	sig, _ := cl.fr.info.Types[cl.lit].Type.(*types.Signature)
	params := map[string]bool{}
	if sig != nil {
		for i := 0; i < sig.Params().Len(); i++ {
			params[sig.Params().At(i).Name()] = true
		}
	}
	var mentions func(e *CExpr) bool
	mentions = func(e *CExpr) bool {
		if e == nil {
			return false
		}
		if e.Kind == "id" && params[e.Name] {
			return true
		}
		for _, a := range e.Args {
			if mentions(a) {
				return true
			}
		}
		for _, v := range e.Vars {
			if mentions(v.Lo) || mentions(v.Hi) {
				return true
			}
		}
		return false
	}
	for i, r := range fc.Requires {
		if strings.HasPrefix(r.Label, "given") {
			continue
		}
		// split conjunctions so that parameter-free parts are still checked
		var parts []*CExpr
		var split func(e *CExpr)
		split = func(e *CExpr) {
			if e.Kind == "bin" && e.Op == "&&" {
				split(e.Args[0])
				split(e.Args[1])
				return
			}
			if e.Kind == "paren" {
				split(e.Args[0])
				return
			}
			parts = append(parts, e)
		}
		split(r.E)
		for j, p := range parts {
			if mentions(p) {
				continue
			}
			env := x.invEnv(st, cl.lit.Pos(), nil)
			var goal *Term
			func() {
				defer func() {
					if rec := recover(); rec != nil {
						if _, isStr := rec.(string); isStr {
							goal = nil
							return
						}
						panic(rec)
					}
				}()
				goal = env.evalBool(p)
			}()
			if goal == nil {
				continue
			}
			label := r.Label
			if label == "" {
				label = fmt.Sprintf("r%d", i+1)
			}
			x.oblige(st, "pre", fmt.Sprintf("%s.%d@creation:%s", label, j+1, shortKey(cl.name)), goal, cl.lit.Pos(), r.Src)
		}
	}
}

func (x *Exec) inlineClosure(cl *closure, args []Val, e ast.Node, st *State) []Val {
	sig := cl.fr.info.Types[cl.lit].Type.(*types.Signature)
	var fc *FuncContract
	// a closure may carry loop invariants under the key  Func#litN
	if c, ok := x.eng.contracts[cl.name]; ok {
		fc = c
	}
	if fc != nil && !fc.Inline && fc.HasAssigns {
		// the literal has a contract of its own (verified separately as
		// Func#litN): use it modularly
		call, _ := e.(*ast.CallExpr)
		if call == nil {
			call = &ast.CallExpr{Fun: cl.lit, Lparen: cl.lit.Pos()}
		}
		// captured variables are visible to the literal's contract by name
		x.setPendingCaptured(cl.lit.Body, cl.fr.info, cl.lit.Pos(), cl.lit.End(), st)
		defer func() { x.pendingCaptured, x.pendingCapObjs = nil, nil }()
		return x.applyContract(fc, cl.name, sig, nil, args, call, st)
	}
	fr := &frame{key: cl.name, pkg: cl.fr.pkg, info: cl.fr.info, fc: fc, sig: sig, body: cl.lit.Body}
	return x.inlineBody(fr, cl.lit.Body, nil, nil, sig, args, e, st)
}

// summarizeClosure: a function literal passed directly as an argument is
// only called during that call. If its body is a side-effect-free
// expression of its parameters and captured values, the callee's view of it
// (the uninterpreted application app(f, args)) is defined by a quantified
// equation obtained by executing the body on bound variables.
func (x *Exec) summarizeClosure(lit *ast.FuncLit, fv Val, st *State) {
	sig, _ := x.info().Types[lit].Type.(*types.Signature)
	if sig == nil || sig.Results().Len() != 1 {
		return
	}
	id, ok := intVal(fv.T)
	if !ok {
		return
	}
	cl := x.closures[id]
	if cl == nil {
		return
	}
	defer func() {
		if r := recover(); r != nil {
			if _, isEng := r.(engineError); isEng {
				x.notes = append(x.notes, "closure "+cl.name+" not summarised")
				return
			}
			if _, isStr := r.(string); isStr {
				return
			}
			panic(r)
		}
	}()
	s2 := st.clone()
	nob := len(x.obls)
	var bvs []BoundVar
	var args []Val
	for i := 0; i < sig.Params().Len(); i++ {
		pty := x.w.goTy(sig.Params().At(i).Type(), x.model.BV)
		name := x.freshBound(sig.Params().At(i).Name())
		srt := x.w.sortOf(pty, x.model)
		bvs = append(bvs, BoundVar{name, srt})
		args = append(args, Val{T: mk(name, srt), Ty: pty})
	}
	if fc, ok := x.eng.contracts[cl.name]; ok && fc.Pure && !fc.Inline && fc.HasAssigns {
		x.summarizeByContract(cl, fc, sig, bvs, args, lit, st)
		return
	}
	res := x.inlineClosure(cl, args, lit, s2)
	if len(x.obls) != nob {
		// the body has proof obligations of its own: do not summarise
		x.obls = x.obls[:nob]
		return
	}
	for k, h := range s2.heaps {
		if old, ok := st.heaps[k]; ok && old != h {
			return
		}
	}
	if len(res) != 1 {
		return
	}
	app := x.applyFuncValue(fv, sig, args)
	// facts assumed inside the body (e.g. type invariants of pure call
	// results) must hold for the equation to be usable: guard by them
	if len(s2.pc) != len(st.pc) {
		// the body introduced definitions (branches, call results) that depend
		// on the parameters: no closed-form summary
		x.notes = append(x.notes, "closure "+cl.name+" not summarised (its body is not a single expression)")
		return
	}
	st.assume(Forall(bvs, Eq(app.T, res[0].T), app.T))
}

// summarizeByContract: a literal with a deterministic contract of its own
// (verified separately as Func#litN) is passed as an argument. Contracts of
// the callee speak about it as the function det_<lit>(args); that function is
// described here by the literal's contract: for all arguments, requires ==>
// the state-independent part of ensures (clauses that mention a heap cell,
// allocation counter or other value created by applying the contract are
// dropped, so no fact about a particular post-state leaks under the
// quantifier). The literal's precondition is evaluated in the current state
// over the captured variables, as at the literal's creation.
func (x *Exec) summarizeByContract(cl *closure, fc *FuncContract, sig *types.Signature, bvs []BoundVar, args []Val, lit *ast.FuncLit, st *State) {
	s2 := st.clone()
	nob := len(x.obls)
	nsym := len(x.sym.order)
	extra := map[string]Val{}
	for i := 0; i < sig.Params().Len(); i++ {
		extra[sig.Params().At(i).Name()] = args[i]
	}
	env := x.invEnv(st, lit.Pos(), extra)
	var pre []*Term
	for _, r := range fc.Requires {
		pre = append(pre, env.evalBool(r.E))
	}
	res := x.inlineClosure(cl, args, lit, s2)
	x.obls = x.obls[:nob]
	if len(res) != 1 {
		return
	}
	fresh := map[string]bool{}
	for _, n := range x.sym.order[nsym:] {
		if strings.HasPrefix(x.sym.decls[n], "(declare-const") {
			fresh[n] = true
		}
	}
	var post []*Term
	for _, t := range s2.pc[len(st.pc):] {
		bad := false
		t.walk(func(u *Term) {
			if len(u.Args) == 0 && fresh[u.Op] {
				bad = true
			}
		})
		if !bad {
			post = append(post, t)
		}
	}
	if len(post) == 0 {
		return
	}
	st.assume(Forall(bvs, Implies(And(pre...), And(post...)), res[0].T))
}

func (x *Exec) funcValue(o *types.Func, n ast.Node) Val {
	// a named function used as a value: opaque handle, distinct per function
	key := funcKey(o)
	id, ok := x.eng.strIDs["func:"+key]
	if !ok {
		id = int64(len(x.eng.strIDs) + 500000)
		x.eng.strIDs["func:"+key] = id
	}
	return Val{T: IntLit(id), Ty: x.w.goTy(o.Type(), x.model.BV)}
}

// methodValue: recv.M used as a value. For a receiver that is an opaque
// handle (an interface value or a pointer) the result is an opaque function
// handle determined by the receiver handle and the method name; what calling
// it does is covered by A8 like every function-typed value. Receivers that
// are copied into the closure (struct values) stay outside the subset.
func (x *Exec) methodValue(e *ast.SelectorExpr, sel *types.Selection, st *State) Val {
	recv := x.expr(e.X, st)
	if recv.T == nil || recv.T.Sort != SInt {
		x.unsupported(e, "method values are supported on interface and pointer receivers only")
	}
	name := "methodval_" + sanitize(sel.Obj().Name())
	x.sym.Func(name, []Sort{SInt}, SInt)
	x.noteTrusted("A8: the method value " + exprText(e) + " is an opaque function value determined by its receiver handle and the method name")
	return Val{T: mk(name, SInt, recv.T), Ty: x.w.goTy(sel.Type(), x.model.BV)}
}

// typeAssert: x.(T) for a concrete type T with a boxKey. The dynamic type
// having T's tag is a safety obligation (the Go expression panics otherwise);
// the value is the unboxed handle, which satisfies T's type invariant because
// only well-formed values are ever boxed.
func (x *Exec) typeAssert(e *ast.TypeAssertExpr, st *State) Val {
	if e.Type == nil {
		x.unsupported(e, "type switches are not supported")
	}
	tt := x.info().Types[e.Type].Type
	ty := x.w.goTy(tt, x.model.BV)
	key := boxKey(ty)
	if key == "" {
		x.unsupported(e, "type assertions to this type are not supported")
	}
	v := x.expr(e.X, st)
	if v.Ty.K != TOpaque {
		x.unsupported(e, "type assertion on a non-interface value")
	}
	sort := x.w.sortOf(ty, x.model)
	x.safe(st, "typeassert", x.dynTypeIs(v.T, key, sort), e)
	u := x.unboxed(v.T, key, sort)
	st.assume(x.typeInv(u, ty, st.alloc))
	return Val{T: u, Ty: ty}
}

// typeAssert2: v, ok := x.(I) for an interface type I. The dynamic type of x
// is not modelled, so ok is an unconstrained boolean (both outcomes are
// explored); on success v is the same opaque handle as x (interface methods
// are functions of the handle, so x's methods and v's agree), otherwise the
// nil interface. Assertions to concrete types stay outside the subset.
func (x *Exec) typeAssert2(e *ast.TypeAssertExpr, st *State) []Val {
	tt := x.info().Types[e.Type].Type
	if e.Type == nil {
		x.unsupported(e, "type switches are not supported")
	}
	if _, isIface := tt.Underlying().(*types.Interface); !isIface {
		// concrete T with a boxKey: ok is exactly "the dynamic-type tag is T's"
		ty := x.w.goTy(tt, x.model.BV)
		key := boxKey(ty)
		if key == "" || ty.K != TSlice {
			x.unsupported(e, "comma-ok type assertions to this type are not supported")
		}
		v := x.expr(e.X, st)
		if v.Ty.K != TOpaque {
			x.unsupported(e, "type assertion on a non-interface value")
		}
		sort := x.w.sortOf(ty, x.model)
		ok := x.dynTypeIs(v.T, key, sort)
		u := x.unboxed(v.T, key, sort)
		st.assume(Implies(ok, x.typeInv(u, ty, st.alloc)))
		return []Val{{T: Ite(ok, u, nilSlice), Ty: ty}, {T: ok, Ty: tyBool}}
	}
	v := x.expr(e.X, st)
	ty := x.w.goTy(tt, x.model.BV)
	if v.Ty.K != TOpaque || ty.K != TOpaque {
		x.unsupported(e, "type assertion on a non-interface value")
	}
	ok := x.sym.Fresh("typeok", SBool)
	return []Val{{T: Ite(ok, v.T, IntLit(0)), Ty: ty}, {T: ok, Ty: tyBool}}
}

// ---------------------------------------------------------------------
// loop effect summaries for calls

func (x *Exec) callEffects(e *ast.CallExpr, eff *loopEffects, unknown func(string)) {
	info := x.info()
	if tv, ok := info.Types[e.Fun]; ok && tv.IsType() {
		return
	}
	fun := e.Fun
	for {
		if p, ok := fun.(*ast.ParenExpr); ok {
			fun = p.X
			continue
		}
		break
	}
	if id, ok := fun.(*ast.Ident); ok {
		if b, ok := info.ObjectOf(id).(*types.Builtin); ok {
			switch b.Name() {
			case "append":
				eff.any = true
				if tv, ok := info.Types[e.Args[0]]; ok {
					ty := x.w.goTy(tv.Type, x.model.BV)
					if ty.K == TSlice {
						hn, hs := elemHeap(x.w.sortOf(ty.Elem, x.model))
						x.heapSorts[hn] = hs
						eff.targets = append(eff.targets, writeTarget{heap: hn, expr: e.Args[0]})
					}
				}
			case "copy":
				eff.any = true
				if tv, ok := info.Types[e.Args[0]]; ok {
					ty := x.w.goTy(tv.Type, x.model.BV)
					hn, hs := elemHeap(x.w.sortOf(ty.Elem, x.model))
					x.heapSorts[hn] = hs
					eff.targets = append(eff.targets, writeTarget{heap: hn, expr: e.Args[0]})
				}
			case "make", "new":
				eff.any = true
			case "delete":
				// delete(m, k): the presence and length heaps of m change
				eff.any = true
				if tv, ok := info.Types[e.Args[0]]; ok && tv.Type != nil {
					if mt, isMap := tv.Type.Underlying().(*types.Map); isMap {
						tag := sanitize(mt.String())
						for _, pre := range []string{"MV_", "MP_", "ML_"} {
							eff.targets = append(eff.targets, writeTarget{heap: pre + tag, expr: e.Args[0], mapType: mt})
						}
						return
					}
				}
				unknown("delete")
			}
			return
		}
	}
	var callee *types.Func
	switch f := fun.(type) {
	case *ast.Ident:
		callee, _ = info.ObjectOf(f).(*types.Func)
	case *ast.SelectorExpr:
		if sel := info.Selections[f]; sel != nil {
			if sel.Kind() == types.MethodVal {
				callee, _ = sel.Obj().(*types.Func)
			}
		} else {
			callee, _ = info.ObjectOf(f.Sel).(*types.Func)
		}
	}
	if callee == nil {
		if id, ok := fun.(*ast.Ident); ok && x.selfVar != nil && info.ObjectOf(id) == types.Object(x.selfVar) {
			unknown("recursive call of the literal under verification (state the loop frame with modifies/preserves)")
			return
		}
		// function value: closures defined in this function are inlined;
		// their bodies are part of the enclosing AST only if defined inside
		// the loop. Be conservative for closures defined outside.
		if id, ok := fun.(*ast.Ident); ok {
			if o := info.ObjectOf(id); o != nil {
				if lit := x.closureLitOf(o); lit != nil {
					sub := x.collectEffects(lit.Body)
					if sub.any {
						eff.any = true
						eff.targets = append(eff.targets, sub.targets...)
					}
					return
				}
			}
		}
		return // pure function value (A8)
	}
	pkgPath := ""
	if callee.Pkg() != nil {
		pkgPath = callee.Pkg().Path()
	}
	if pkgPath == "math" || pkgPath == "math/bits" {
		return
	}
	key := funcKey(callee)
	if x.eng.pures[key] {
		return
	}
	fc := x.eng.contracts[key]
	if fc == nil {
		unknown("call to " + key + " without contract")
		return
	}
	if fc.Inline {
		fi := x.eng.funcs[key]
		if fi == nil {
			unknown("inline callee missing")
			return
		}
		fr := &frame{key: fi.Key, pkg: fi.Pkg, info: fi.Pkg.TypesInfo, fc: fc}
		x.frames = append(x.frames, fr)
		sub := x.collectEffects(fi.Decl.Body)
		x.frames = x.frames[:len(x.frames)-1]
		if sub.any {
			unknown("inline callee " + key + " has side effects")
		}
		return
	}
	eff.any = true // allocation counter advances
	if len(fc.Assigns) > 0 {
		eff.targets = append(eff.targets, writeTarget{fc: fc, call: e, fi: x.eng.funcs[key]})
	}
}

// closureLitOf finds the function literal bound to local variable o in the
// current function body (x := func...), if there is exactly one.
func (x *Exec) closureLitOf(o types.Object) *ast.FuncLit {
	var found *ast.FuncLit
	n := 0
	body := x.cur().body
	if body == nil {
		return nil
	}
	ast.Inspect(body, func(nd ast.Node) bool {
		if as, ok := nd.(*ast.AssignStmt); ok && len(as.Lhs) == len(as.Rhs) {
			for i, l := range as.Lhs {
				if id, ok := l.(*ast.Ident); ok && x.info().ObjectOf(id) == o {
					if lit, ok := as.Rhs[i].(*ast.FuncLit); ok {
						found = lit
						n++
					} else {
						n += 2
					}
				}
			}
		}
		return true
	})
	if n == 1 {
		return found
	}
	return nil
}

// calleeTargets instantiates a callee's assigns clause at a call inside a
// loop, evaluating the (loop-invariant) arguments in the pre-loop state.
func (x *Exec) calleeTargets(pre *State, t writeTarget, asg map[types.Object]bool, nodes []ast.Node) ([]assignTarget, bool) {
	e := t.call
	info := x.info()
	var callee *types.Func
	var recvExpr ast.Expr
	switch f := e.Fun.(type) {
	case *ast.Ident:
		callee, _ = info.ObjectOf(f).(*types.Func)
	case *ast.SelectorExpr:
		if sel := info.Selections[f]; sel != nil {
			callee, _ = sel.Obj().(*types.Func)
			recvExpr = f.X
		} else {
			callee, _ = info.ObjectOf(f.Sel).(*types.Func)
		}
	}
	if callee == nil {
		return nil, false
	}
	sig := callee.Type().(*types.Signature)
	names := map[string]Val{}
	// only arguments that appear in assigns need to be invariant; evaluate
	// lazily by name
	argExpr := map[string]ast.Expr{}
	if recvExpr != nil && sig.Recv() != nil {
		argExpr[sig.Recv().Name()] = recvExpr
	}
	for i := 0; i < sig.Params().Len() && i < len(e.Args); i++ {
		argExpr[sig.Params().At(i).Name()] = e.Args[i]
	}
	ok := true
	look := func(n string) (Val, bool) {
		if v, have := names[n]; have {
			return v, true
		}
		ae, have := argExpr[n]
		if !have {
			return Val{}, false
		}
		if !x.invariantExpr(ae, asg) {
			// a variant slice variable that only grows is summarised by its
			// pre-loop region
			if id, isID := ae.(*ast.Ident); !isID || !x.selfGrowing(x.info().ObjectOf(id), nodes...) {
				ok = false
			}
		}
		v := x.expr(ae, pre)
		// implicit address-of for pointer receivers on addressable values
		if sig.Recv() != nil && n == sig.Recv().Name() {
			if _, wantPtr := sig.Recv().Type().Underlying().(*types.Pointer); wantPtr && v.Ty.K != TPtr {
				if id, isID := ae.(*ast.Ident); isID {
					if o, isVar := x.info().ObjectOf(id).(*types.Var); isVar && x.heapified[o] {
						v = Val{T: pre.vars[o], Ty: &Ty{K: TPtr, Elem: v.Ty}}
					} else {
						ok = false
					}
				} else {
					ok = false
				}
			}
		}
		names[n] = v
		return v, true
	}
	calleePkg := x.eng.pkgTypes[t.fc.Pkg]
	env := &CEnv{x: x, st: pre, old: pre, lookup: look, pkg: calleePkg, oldAlloc: pre.alloc}
	var out []assignTarget
	func() {
		defer func() {
			if r := recover(); r != nil {
				ok = false
			}
		}()
		out = x.assignTargets(env, t.fc.Assigns)
	}()
	return out, ok
}
