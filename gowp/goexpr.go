package main

// Translation of Go expressions (real AST of the function under
// verification) to SMT terms, with safety obligations.

import (
	"fmt"
	"go/ast"
	"go/constant"
	"go/token"
	"go/types"
	"hash/fnv"
	"strings"
)

func (x *Exec) tyOf(e ast.Expr) *Ty {
	tv, ok := x.info().Types[e]
	if !ok || tv.Type == nil {
		if id, ok := e.(*ast.Ident); ok {
			if o := x.info().ObjectOf(id); o != nil {
				return x.w.goTy(o.Type(), x.model.BV)
			}
		}
		x.unsupported(e, "no type for expression")
	}
	return x.w.goTy(tv.Type, x.model.BV)
}

func (x *Exec) safe(st *State, kind string, goal *Term, n ast.Node) {
	if isLit(goal, "true") {
		return
	}
	x.oblige(st, "safe", fmt.Sprintf("%s%d", kind, x.nextOrd("safe:"+kind)), goal, n.Pos(), "")
	st.assume(goal) // continue under the assumption that the check passed
}

// expr evaluates e to a single value.
func (x *Exec) expr(e ast.Expr, st *State) Val {
	// constants first
	if tv, ok := x.info().Types[e]; ok && tv.Value != nil && tv.Type != nil {
		ty := x.w.goTy(tv.Type, x.model.BV)
		if ty.K == TOpaque && tv.Value.Kind() != constant.String {
			// untyped constant in an interface context etc.
		} else {
			return x.constVal(tv.Value, ty)
		}
	}
	switch e := e.(type) {
	case *ast.ParenExpr:
		return x.expr(e.X, st)
	case *ast.Ident:
		return x.identVal(e, st)
	case *ast.BasicLit:
		x.unsupported(e, "non-constant literal")
	case *ast.BinaryExpr:
		return x.binary(e, st)
	case *ast.UnaryExpr:
		return x.unary(e, st)
	case *ast.SelectorExpr:
		return x.selector(e, st)
	case *ast.IndexExpr:
		return x.indexExpr(e, st)
	case *ast.SliceExpr:
		return x.sliceExpr(e, st)
	case *ast.StarExpr:
		p := x.expr(e.X, st)
		return x.load(st, p, e)
	case *ast.CallExpr:
		vs := x.call(e, st)
		if len(vs) != 1 {
			x.unsupported(e, "call used as single value returns %d values", len(vs))
		}
		return vs[0]
	case *ast.CompositeLit:
		return x.compositeLit(e, st)
	case *ast.FuncLit:
		return x.funcLit(e, st)
	case *ast.TypeAssertExpr:
		return x.typeAssert(e, st)
	}
	x.unsupported(e, "unsupported expression %T", e)
	panic("unreachable")
}

func (x *Exec) identVal(id *ast.Ident, st *State) Val {
	obj := x.info().ObjectOf(id)
	switch o := obj.(type) {
	case *types.Nil:
		return Val{T: IntLit(0), Ty: &Ty{K: TOpaque, Name: "nil"}}
	case *types.Const:
		return x.constVal(o.Val(), x.w.goTy(o.Type(), x.model.BV))
	case *types.Var:
		ty := x.w.goTy(o.Type(), x.model.BV)
		if o.Pkg() != nil && o.Parent() == o.Pkg().Scope() {
			return x.readGlobal(st, o)
		}
		t, ok := st.vars[o]
		if !ok {
			x.unsupported(id, "variable %s not in scope of symbolic state", id.Name)
		}
		if x.heapified[o] {
			_, h := x.ptrHeapOf(st, ty)
			return Val{T: st.sel(h, t), Ty: ty}
		}
		return Val{T: t, Ty: ty}
	case *types.Func:
		// function value
		return x.funcValue(o, id)
	}
	if id.Name == "true" {
		return Val{T: tTrue, Ty: tyBool}
	}
	if id.Name == "false" {
		return Val{T: tFalse, Ty: tyBool}
	}
	x.unsupported(id, "unsupported identifier %s", id.Name)
	panic("unreachable")
}

// underGuard evaluates f in a copy of st extended with guard g; facts
// learned there are added to st under the guard. State changes (heap
// writes, allocation) in the guarded part are rejected.
func (x *Exec) underGuard(st *State, g *Term, n ast.Node, f func(s *State) Val) Val {
	s2 := st.clone()
	s2.assume(g)
	base := len(s2.pc)
	v := f(s2)
	for k, h := range s2.heaps {
		if old, ok := st.heaps[k]; ok && old != h {
			x.unsupported(n, "side effect in short-circuit operand")
		} else if !ok {
			st.heaps[k] = h
		}
	}
	for _, p := range s2.pc[base:] {
		st.pc = append(st.pc, Implies(g, p))
	}
	for k, g0 := range s2.globals {
		if _, ok := st.globals[k]; !ok {
			st.globals[k] = g0
		}
	}
	if s2.alloc != st.alloc {
		// allocation counter may advance through pure calls
		na := x.sym.Fresh("alloc", SInt)
		st.assume(Ge(na, st.alloc))
		st.assume(Ge(na, s2.alloc))
		st.setAllocBase(na)
	}
	return v
}

func (x *Exec) binary(e *ast.BinaryExpr, st *State) Val {
	switch e.Op {
	case token.LAND:
		a := x.expr(e.X, st)
		b := x.underGuard(st, a.T, e, func(s *State) Val { return x.expr(e.Y, s) })
		return Val{T: And(a.T, b.T), Ty: tyBool}
	case token.LOR:
		a := x.expr(e.X, st)
		b := x.underGuard(st, Not(a.T), e, func(s *State) Val { return x.expr(e.Y, s) })
		return Val{T: Or(a.T, b.T), Ty: tyBool}
	}
	a := x.expr(e.X, st)
	b := x.expr(e.Y, st)
	op := tokOps[e.Op]
	switch e.Op {
	case token.EQL, token.NEQ, token.LSS, token.LEQ, token.GTR, token.GEQ:
		// nil comparisons
		if a.Ty.K == TSlice || b.Ty.K == TSlice {
			s := a
			if a.Ty.K != TSlice {
				s = b
			}
			t := Eq(slReg(s.T), IntLit(0))
			if e.Op == token.NEQ {
				t = Not(t)
			}
			return Val{T: t, Ty: tyBool}
		}
		if a.Ty.K == TStruct && b.Ty.K == TStruct {
			t := Eq(a.T, b.T)
			if e.Op == token.NEQ {
				t = Not(t)
			}
			return Val{T: t, Ty: tyBool}
		}
		return Val{T: x.compare(op, a, b, true), Ty: tyBool}
	}
	rty := x.tyOf(e)
	switch e.Op {
	case token.QUO, token.REM:
		if rty.K == TInt {
			x.safe(st, "div", Not(Eq(b.T, IntLit(0))), e)
		} else if x.model.Float == SReal {
			// model real: float division must not be by zero (otherwise
			// the real-arithmetic reading of the code is wrong)
			x.safe(st, "fdiv", Not(Eq(x.toReal(b), mk("0.0", SReal))), e)
		}
	}
	if e.Op == token.SUB && rty.K == TInt && rty.Unsigned {
		x.safe(st, "uwrap", Ge(a.T, b.T), e)
	}
	v := x.arith(op, a, b)
	v.Ty = rty
	return v
}

func (x *Exec) unary(e *ast.UnaryExpr, st *State) Val {
	switch e.Op {
	case token.NOT:
		v := x.expr(e.X, st)
		return Val{T: Not(v.T), Ty: tyBool}
	case token.SUB:
		v := x.expr(e.X, st)
		if v.T.Sort == SXR {
			return Val{T: mk("xneg", SXR, v.T), Ty: v.Ty}
		}
		return Val{T: Neg(v.T), Ty: v.Ty}
	case token.ADD:
		return x.expr(e.X, st)
	case token.XOR:
		v := x.expr(e.X, st)
		if v.T.Sort == SBV32 {
			return Val{T: mk("bvnot", SBV32, v.T), Ty: v.Ty}
		}
	case token.AND:
		return x.addressOf(e, st)
	}
	x.unsupported(e, "unsupported unary operator %s", e.Op)
	panic("unreachable")
}

func (x *Exec) addressOf(e *ast.UnaryExpr, st *State) Val {
	inner := e.X
	for {
		if p, ok := inner.(*ast.ParenExpr); ok {
			inner = p.X
			continue
		}
		break
	}
	switch in := inner.(type) {
	case *ast.CompositeLit:
		v := x.compositeLit(in, st)
		addr := x.allocCell(st, v)
		return Val{T: addr, Ty: &Ty{K: TPtr, Elem: v.Ty, Go: x.info().Types[e].Type}}
	case *ast.Ident:
		o, _ := x.info().ObjectOf(in).(*types.Var)
		if o != nil && x.heapified[o] {
			ty := x.w.goTy(o.Type(), x.model.BV)
			return Val{T: st.vars[o], Ty: &Ty{K: TPtr, Elem: ty, Go: x.info().Types[e].Type}}
		}
	case *ast.IndexExpr:
		// interior pointer &a[i]: the address is the term elemaddr(region, index);
		// loads and stores through it are redirected to the element heap. The
		// pointer may only be used for field access in the same straight-line
		// region (it must stay syntactically visible).
		base := x.expr(in.X, st)
		idx := x.expr(in.Index, st)
		if base.Ty.K == TSlice {
			x.safe(st, "index", And(Le(IntLit(0), idx.T), Lt(idx.T, slLen(base.T))), in)
			x.sym.Func("elemaddr", []Sort{SInt, SInt}, SInt)
			return Val{T: mk("elemaddr", SInt, slReg(base.T), IdxAdd(slOff(base.T), idx.T)), Ty: &Ty{K: TPtr, Elem: base.Ty.Elem, Go: x.info().Types[e].Type}}
		}
	}
	x.unsupported(e, "unsupported address-of operand")
	panic("unreachable")
}

// allocCell allocates a fresh pointer cell holding v.
func (x *Exec) allocCell(st *State, v Val) *Term {
	addr := st.bump()
	hn, h := x.ptrHeapOf(st, v.Ty)
	st.heaps[hn] = Store(h, addr, v.T)
	return addr
}

func (x *Exec) load(st *State, p Val, n ast.Node) Val {
	if p.Ty.K != TPtr {
		x.unsupported(n, "dereference of non-pointer")
	}
	if p.T.Op == "elemaddr" {
		_, h := x.elemHeapOf(st, p.Ty.Elem)
		v := Select(st.sel(h, p.T.Args[0]), p.T.Args[1])
		st.assume(x.typeInv(v, p.Ty.Elem, st.alloc))
		return Val{T: v, Ty: p.Ty.Elem}
	}
	x.safe(st, "nil", Not(Eq(p.T, IntLit(0))), n)
	_, h := x.ptrHeapOf(st, p.Ty.Elem)
	v := st.sel(h, p.T)
	st.assume(x.typeInv(v, p.Ty.Elem, st.alloc))
	return Val{T: v, Ty: p.Ty.Elem}
}

func (x *Exec) selector(e *ast.SelectorExpr, st *State) Val {
	// qualified identifier pkg.Name
	if id, ok := e.X.(*ast.Ident); ok {
		if _, isPkg := x.info().ObjectOf(id).(*types.PkgName); isPkg {
			return x.identVal(e.Sel, st)
		}
	}
	sel := x.info().Selections[e]
	if sel == nil {
		x.unsupported(e, "unresolved selector")
	}
	switch sel.Kind() {
	case types.FieldVal:
		base := x.expr(e.X, st)
		return x.fieldPath(st, base, sel.Index(), e)
	case types.MethodVal:
		return x.methodValue(e, sel, st)
	}
	x.unsupported(e, "unsupported selector kind")
	panic("unreachable")
}

func (x *Exec) fieldPath(st *State, base Val, path []int, n ast.Node) Val {
	for _, i := range path {
		if base.Ty.K == TPtr {
			base = x.load(st, base, n)
		}
		if base.Ty.K != TStruct {
			x.unsupported(n, "field of non-struct")
		}
		f := base.Ty.Struct.Fields[i]
		base = Val{T: x.structGet(base.T, base.Ty, i), Ty: f.Ty}
	}
	return base
}

func (x *Exec) indexExpr(e *ast.IndexExpr, st *State) Val {
	bt := x.info().Types[e.X].Type
	if mt, ok := bt.Underlying().(*types.Map); ok {
		m := x.expr(e.X, st)
		k := x.expr(e.Index, st)
		return x.mapGet(st, m, k, mt)
	}
	base := x.expr(e.X, st)
	idx := x.expr(e.Index, st)
	if base.Ty.K == TPtr { // pointer to array
		base = x.load(st, base, e)
	}
	if base.Ty.K != TSlice {
		x.unsupported(e, "index of non-slice")
	}
	x.safe(st, "index", And(Le(IntLit(0), idx.T), Lt(idx.T, slLen(base.T))), e)
	_, h := x.elemHeapOf(st, base.Ty.Elem)
	ev := Select(st.sel(h, slReg(base.T)), IdxAdd(slOff(base.T), idx.T))
	st.assume(x.typeInv(ev, base.Ty.Elem, st.alloc))
	return Val{T: ev, Ty: base.Ty.Elem}
}

func (x *Exec) sliceExpr(e *ast.SliceExpr, st *State) Val {
	base := x.expr(e.X, st)
	if base.Ty.K != TSlice {
		x.unsupported(e, "slice of non-slice")
	}
	lo := IntLit(0)
	if e.Low != nil {
		lo = x.expr(e.Low, st).T
	}
	hi := slLen(base.T)
	if e.High != nil {
		hi = x.expr(e.High, st).T
	}
	mx := slCap(base.T)
	if e.Max != nil {
		mx = x.expr(e.Max, st).T
		x.safe(st, "slice", And(Le(IntLit(0), lo), Le(lo, hi), Le(hi, mx), Le(mx, slCap(base.T))), e)
	} else {
		x.safe(st, "slice", And(Le(IntLit(0), lo), Le(lo, hi), Le(hi, slCap(base.T))), e)
	}
	return Val{T: mkSlice(slReg(base.T), Add(slOff(base.T), lo), Sub(hi, lo), Sub(mx, lo)), Ty: base.Ty}
}

func (x *Exec) compositeLit(e *ast.CompositeLit, st *State) Val {
	ty := x.tyOf(e)
	switch ty.K {
	case TStruct:
		fields := make([]*Term, len(ty.Struct.Fields))
		for i, f := range ty.Struct.Fields {
			fields[i] = x.zero(f.Ty)
		}
		for i, el := range e.Elts {
			if kv, ok := el.(*ast.KeyValueExpr); ok {
				name := kv.Key.(*ast.Ident).Name
				j, f := ty.Struct.field(name)
				if f == nil {
					x.unsupported(e, "unknown field %s", name)
				}
				fields[j] = x.coerceTo(x.expr(kv.Value, st), f.Ty)
			} else {
				fields[i] = x.coerceTo(x.expr(el, st), ty.Struct.Fields[i].Ty)
			}
		}
		return Val{T: x.mkStruct(ty, fields), Ty: ty}
	case TSlice:
		n := int64(len(e.Elts))
		reg := st.bump()
		hn, h := x.elemHeapOf(st, ty.Elem)
		arr := x.constArray(ty.Elem)
		for i, el := range e.Elts {
			if _, ok := el.(*ast.KeyValueExpr); ok {
				x.unsupported(e, "keyed slice literal")
			}
			arr = Store(arr, IntLit(int64(i)), x.coerceTo(x.expr(el, st), ty.Elem))
		}
		// re-read heap: element expressions may have allocated
		_, h = x.elemHeapOf(st, ty.Elem)
		st.heaps[hn] = Store(h, reg, arr)
		return Val{T: mkSlice(reg, IntLit(0), IntLit(n), IntLit(n)), Ty: ty}
	case TOpaque:
		if mt, ok := ty.Go.Underlying().(*types.Map); ok {
			m := x.newMap(st, ty, mt)
			kty := x.w.goTy(mt.Key(), x.model.BV)
			vty := x.w.goTy(mt.Elem(), x.model.BV)
			for _, el := range e.Elts {
				kv, isKV := el.(*ast.KeyValueExpr)
				if !isKV {
					x.unsupported(e, "map literal element without a key")
				}
				var k, v Val
				if cl, isLit := kv.Key.(*ast.CompositeLit); isLit && cl.Type == nil {
					x.unsupported(e, "map literal with elided key type")
				}
				k = x.expr(kv.Key, st)
				if cl, isLit := kv.Value.(*ast.CompositeLit); isLit && cl.Type == nil {
					x.unsupported(e, "map literal with elided value type")
				}
				v = x.expr(kv.Value, st)
				x.mapSet(st, m, Val{T: x.coerceTo(k, kty), Ty: kty}, Val{T: x.coerceTo(v, vty), Ty: vty}, mt)
			}
			return m
		}
	}
	x.unsupported(e, "unsupported composite literal")
	panic("unreachable")
}

func (x *Exec) constArray(elem *Ty) *Term {
	es := x.w.sortOf(elem, x.model)
	as := ArrSort(SInt, es)
	return mk(fmt.Sprintf("(as const %s)", as), as, x.zero(elem))
}

// convert implements a Go conversion T(v).
func (x *Exec) convert(to *Ty, v Val, n ast.Node) Val {
	switch to.K {
	case TFloat:
		switch v.T.Sort {
		case SInt:
			return Val{T: x.floatLit(ToReal(v.T)), Ty: to}
		case SReal, SXR:
			return Val{T: v.T, Ty: to}
		}
	case TInt:
		switch v.T.Sort {
		case SInt:
			return Val{T: v.T, Ty: to}
		case SReal, SXR:
			return Val{T: x.floatToInt(v), Ty: to}
		}
	case TBV32:
		if v.T.Sort == SBV32 {
			return Val{T: v.T, Ty: to}
		}
		return Val{T: x.intToBV(v.T), Ty: to}
	case TSlice:
		if v.Ty.K == TOpaque { // nil
			return Val{T: nilSlice, Ty: to}
		}
		if v.Ty.K == TSlice {
			return Val{T: v.T, Ty: to}
		}
	case TStruct, TPtr, TBool:
		if x.w.sortOf(to, x.model) == v.T.Sort {
			return Val{T: v.T, Ty: to}
		}
	case TOpaque:
		// conversion to interface / named func type: wrap
		return x.toInterface(v, to, n)
	}
	x.unsupported(n, "unsupported conversion")
	panic("unreachable")
}

// toInterface boxes a value into an opaque handle. Values that are
// already handles are passed through; other values get a handle through an
// uninterpreted boxing function. For types with a boxKey (plain basic types
// and slices of them) the box is typed: boxFacts adds, for every such box
// term of an obligation, that unboxing returns the value, that the handle's
// dynamic-type tag is the type's, and that the handle is not the nil interface.
func (x *Exec) toInterface(v Val, to *Ty, n ast.Node) Val {
	if v.Ty.K == TOpaque {
		return Val{T: v.T, Ty: to}
	}
	if key := boxKey(v.Ty); key != "" {
		bn, _ := x.boxFuncs(key, v.T.Sort)
		return Val{T: mk(bn, SInt, v.T), Ty: to}
	}
	if v.T.Sort == SInt {
		return Val{T: v.T, Ty: to}
	}
	name := "box_" + sortTag(v.T.Sort)
	x.sym.Func(name, []Sort{v.T.Sort}, SInt)
	return Val{T: mk(name, SInt, v.T), Ty: to}
}

// boxKey is the canonical spelling of a Go type whose values are boxed with a
// dynamic-type tag ("" if the type is outside that subset: named types,
// arrays, structs, pointers).
func boxKey(ty *Ty) string {
	if ty == nil {
		return ""
	}
	if ty.Go != nil {
		switch ty.Go.(type) {
		case *types.Basic, *types.Slice:
		default:
			return ""
		}
	}
	switch ty.K {
	case TFloat:
		return "float64"
	case TSlice:
		if e := boxKey(ty.Elem); e != "" {
			return "[]" + e
		}
	case TInt:
		if b, ok := ty.Go.(*types.Basic); ok && ty.Go != nil {
			return b.Name()
		}
		if ty.Go == nil && !ty.Unsigned && ty.Bits == 0 {
			return "int"
		}
	}
	return ""
}

type boxKind struct {
	key   string
	unbox string
	sort  Sort
	tag   int64
}

// boxFuncs declares (once) the box / unbox functions of a boxKey.
func (x *Exec) boxFuncs(key string, sort Sort) (box, unbox string) {
	id := strings.NewReplacer("[]", "sl_", "*", "p_", ".", "_").Replace(key)
	box, unbox = "box_"+id, "unbox_"+id
	if x.boxKinds == nil {
		x.boxKinds = map[string]boxKind{}
	}
	if _, ok := x.boxKinds[box]; !ok {
		h := fnv.New32a()
		h.Write([]byte(key))
		x.boxKinds[box] = boxKind{key: key, unbox: unbox, sort: sort, tag: int64(h.Sum32()%1000000) + 1}
		x.sym.Func(box, []Sort{sort}, SInt)
		x.sym.Func(unbox, []Sort{SInt}, sort)
		x.sym.Func("dyntag", []Sort{SInt}, SInt)
	}
	return
}

// dynTypeIs: the handle h holds a value of the boxKey's type; unboxed: that value.
func (x *Exec) dynTypeIs(h *Term, key string, sort Sort) *Term {
	bn, _ := x.boxFuncs(key, sort)
	return Eq(mk("dyntag", SInt, h), IntLit(x.boxKinds[bn].tag))
}

func (x *Exec) unboxed(h *Term, key string, sort Sort) *Term {
	_, un := x.boxFuncs(key, sort)
	return mk(un, sort, h)
}

// boxFacts: ground instances of the boxing axioms for the box terms of ts.
func (x *Exec) boxFacts(ts []*Term) []*Term {
	if len(x.boxKinds) == 0 {
		return nil
	}
	seen := map[string]bool{}
	var out []*Term
	for _, t := range ts {
		t.walk(func(s *Term) {
			bk, ok := x.boxKinds[s.Op]
			if !ok || len(s.Args) != 1 {
				return
			}
			k := s.String()
			if seen[k] {
				return
			}
			seen[k] = true
			out = append(out, Eq(mk(bk.unbox, bk.sort, s), s.Args[0]),
				Eq(mk("dyntag", SInt, s), IntLit(bk.tag)), Not(Eq(s, IntLit(0))))
		})
	}
	return out
}
