package main

import (
	"fmt"
	"go/constant"
	"go/token"
	"math/big"
)

// numeric lattice: Int < Real < XR ; BV32 separate.

func (x *Exec) isXR(v Val) bool { return v.T.Sort == SXR }

func (x *Exec) toReal(v Val) *Term {
	switch v.T.Sort {
	case SInt:
		return ToReal(v.T)
	case SReal:
		return v.T
	}
	panic(fmt.Sprintf("toReal: %s has sort %s", v.T, v.T.Sort))
}

func (x *Exec) toXR(v Val) *Term {
	switch v.T.Sort {
	case SXR:
		return v.T
	case SInt, SReal:
		return mk("fin", SXR, x.toReal(v))
	}
	panic(fmt.Sprintf("toXR: %s has sort %s", v.T, v.T.Sort))
}

// unify numeric operands; returns terms of the same sort and a result type.
func (x *Exec) unify(a, b Val) (*Term, *Term, *Ty) {
	sa, sb := a.T.Sort, b.T.Sort
	switch {
	case sa == SBV32 && sb == SBV32:
		return a.T, b.T, a.Ty
	case sa == SBV32 && sb == SInt:
		return a.T, x.intToBV(b.T), a.Ty
	case sa == SInt && sb == SBV32:
		return x.intToBV(a.T), b.T, b.Ty
	case sa == SXR || sb == SXR:
		return x.toXR(a), x.toXR(b), tyFloat
	case sa == SReal || sb == SReal:
		ty := tyReal
		if a.Ty.K == TFloat || b.Ty.K == TFloat {
			ty = tyFloat
		}
		return x.toReal(a), x.toReal(b), ty
	case sa == SInt && sb == SInt:
		ty := a.Ty
		if ty.K != TInt {
			ty = b.Ty
		}
		if ty.K != TInt {
			ty = tyInt
		}
		return a.T, b.T, ty
	}
	panic(fmt.Sprintf("unify: incompatible operands %s:%s and %s:%s", a.T, sa, b.T, sb))
}

// intToBV converts an Int *literal* to a 32-bit vector (only constants are
// supported: no int2bv bridges).
func (x *Exec) intToBV(t *Term) *Term {
	if n, ok := intVal(t); ok {
		return mk(fmt.Sprintf("#x%08x", uint32(n)), SBV32)
	}
	panic(fmt.Sprintf("intToBV: non-constant int %s used as uint32 in model bv", t))
}

// arith applies a binary arithmetic/bitwise operator. goSem selects Go
// semantics (truncated int division; IEEE == on floats) versus contract
// semantics (same division, but structural equality).
func (x *Exec) arith(op string, a, b Val) Val {
	// shifts: count is an Int
	if op == "<<" || op == ">>" {
		if a.T.Sort == SBV32 {
			f := "shl32"
			if op == ">>" {
				f = "shr32"
			}
			return Val{T: mk(f, SBV32, a.T, b.T), Ty: a.Ty}
		}
		if a.T.Sort == SInt {
			if n, ok := intVal(b.T); ok && n >= 0 && n < 62 {
				p := IntLit(1 << uint(n))
				if op == "<<" {
					return Val{T: Mul(a.T, p), Ty: a.Ty}
				}
				return Val{T: mk("div", SInt, a.T, p), Ty: a.Ty} // floor: arithmetic shift
			}
			if k, ok := intVal(a.T); ok && k == 1 && op == "<<" {
				x.sym.Func("pow2", []Sort{SInt}, SInt)
				return Val{T: mk("pow2", SInt, b.T), Ty: a.Ty}
			}
		}
		panic(fmt.Sprintf("unsupported shift %s %s %s", a.T, op, b.T))
	}
	ta, tb, ty := x.unify(a, b)
	switch ta.Sort {
	case SInt:
		switch op {
		case "+":
			return Val{T: Add(ta, tb), Ty: ty}
		case "-":
			return Val{T: Sub(ta, tb), Ty: ty}
		case "*":
			return Val{T: Mul(ta, tb), Ty: ty}
		case "/":
			if x, ok := intVal(ta); ok {
				if y, ok := intVal(tb); ok && y != 0 {
					return Val{T: IntLit(x / y), Ty: ty}
				}
			}
			return Val{T: mk("tdiv", SInt, ta, tb), Ty: ty}
		case "%":
			return Val{T: mk("tmod", SInt, ta, tb), Ty: ty}
		}
	case SReal:
		switch op {
		case "+", "-", "*", "/":
			return Val{T: mk(op, SReal, ta, tb), Ty: ty}
		}
	case SXR:
		m := map[string]string{"+": "xadd", "-": "xsub", "*": "xmul", "/": "xdiv"}
		if f, ok := m[op]; ok {
			return Val{T: mk(f, SXR, ta, tb), Ty: tyFloat}
		}
	case SBV32:
		m := map[string]string{"&": "bvand", "|": "bvor", "^": "bvxor", "+": "bvadd", "-": "bvsub"}
		if f, ok := m[op]; ok {
			return Val{T: mk(f, SBV32, ta, tb), Ty: ty}
		}
		if op == "&^" {
			return Val{T: mk("bvand", SBV32, ta, mk("bvnot", SBV32, tb)), Ty: ty}
		}
	}
	panic(fmt.Sprintf("arith: unsupported %s on sort %s", op, ta.Sort))
}

// compare applies a comparison. ieeeEq selects IEEE equality on XR (Go
// code) versus structural equality (contracts).
func (x *Exec) compare(op string, a, b Val, ieeeEq bool) *Term {
	if a.T.Sort == b.T.Sort && !isNumericSort(a.T.Sort) {
		switch op {
		case "==":
			return Eq(a.T, b.T)
		case "!=":
			return Not(Eq(a.T, b.T))
		}
		panic("compare: " + op + " on non-numeric sort " + string(a.T.Sort))
	}
	ta, tb, _ := x.unify(a, b)
	switch ta.Sort {
	case SInt, SReal:
		switch op {
		case "==":
			return Eq(ta, tb)
		case "!=":
			return Not(Eq(ta, tb))
		case "<":
			return Lt(ta, tb)
		case "<=":
			return Le(ta, tb)
		case ">":
			return Gt(ta, tb)
		case ">=":
			return Ge(ta, tb)
		}
	case SXR:
		switch op {
		case "==":
			if ieeeEq {
				return mk("xeq", SBool, ta, tb)
			}
			return Eq(ta, tb)
		case "!=":
			if ieeeEq {
				return Not(mk("xeq", SBool, ta, tb))
			}
			return Not(Eq(ta, tb))
		case "<":
			return mk("xlt", SBool, ta, tb)
		case "<=":
			return mk("xle", SBool, ta, tb)
		case ">":
			return mk("xlt", SBool, tb, ta)
		case ">=":
			return mk("xle", SBool, tb, ta)
		}
	case SBV32:
		switch op {
		case "==":
			return Eq(ta, tb)
		case "!=":
			return Not(Eq(ta, tb))
		case "<":
			return mk("bvult", SBool, ta, tb)
		case "<=":
			return mk("bvule", SBool, ta, tb)
		case ">":
			return mk("bvugt", SBool, ta, tb)
		case ">=":
			return mk("bvuge", SBool, ta, tb)
		}
	}
	panic(fmt.Sprintf("compare: unsupported %s on %s", op, ta.Sort))
}

func isNumericSort(s Sort) bool { return s == SInt || s == SReal || s == SXR || s == SBV32 }

// constVal converts a go/constant value of Go type ty to a Val.
func (x *Exec) constVal(cv constant.Value, ty *Ty) Val {
	switch ty.K {
	case TBool:
		if constant.BoolVal(cv) {
			return Val{T: tTrue, Ty: ty}
		}
		return Val{T: tFalse, Ty: ty}
	case TInt:
		iv := constant.ToInt(cv)
		if iv.Kind() != constant.Int {
			panic("constVal: non-integer constant for int type")
		}
		bi, _ := new(big.Int).SetString(iv.ExactString(), 10)
		return Val{T: BigIntLit(bi), Ty: ty}
	case TBV32:
		iv := constant.ToInt(cv)
		n, _ := constant.Uint64Val(iv)
		return Val{T: mk(fmt.Sprintf("#x%08x", uint32(n)), SBV32), Ty: ty}
	case TFloat, TReal:
		fv := constant.ToFloat(cv)
		r := simplestRat(ratOfConst(fv))
		return Val{T: x.floatLit(RatLit(r)), Ty: ty}
	case TOpaque:
		// strings: opaque constant per distinct text
		if cv.Kind() == constant.String {
			s := constant.StringVal(cv)
			id, ok := x.eng.strIDs[s]
			if !ok {
				id = int64(len(x.eng.strIDs) + 1000)
				x.eng.strIDs[s] = id
			}
			return Val{T: IntLit(id), Ty: ty}
		}
	}
	panic(fmt.Sprintf("constVal: unsupported constant %s for kind %d", cv, ty.K))
}

func ratOfConst(fv constant.Value) *big.Rat {
	switch fv.Kind() {
	case constant.Int:
		bi, _ := new(big.Int).SetString(fv.ExactString(), 10)
		return new(big.Rat).SetInt(bi)
	case constant.Float:
		num := constant.Num(fv)
		den := constant.Denom(fv)
		if num.Kind() == constant.Int && den.Kind() == constant.Int {
			n, _ := new(big.Int).SetString(num.ExactString(), 10)
			d, _ := new(big.Int).SetString(den.ExactString(), 10)
			return new(big.Rat).SetFrac(n, d)
		}
		f, _ := constant.Float64Val(fv)
		r := new(big.Rat)
		r.SetFloat64(f)
		return r
	}
	panic("ratOfConst: unsupported constant kind")
}

var tokOps = map[token.Token]string{
	token.ADD: "+", token.SUB: "-", token.MUL: "*", token.QUO: "/", token.REM: "%",
	token.AND: "&", token.OR: "|", token.XOR: "^", token.SHL: "<<", token.SHR: ">>", token.AND_NOT: "&^",
	token.EQL: "==", token.NEQ: "!=", token.LSS: "<", token.LEQ: "<=", token.GTR: ">", token.GEQ: ">=",
	token.ADD_ASSIGN: "+", token.SUB_ASSIGN: "-", token.MUL_ASSIGN: "*", token.QUO_ASSIGN: "/", token.REM_ASSIGN: "%",
	token.AND_ASSIGN: "&", token.OR_ASSIGN: "|", token.XOR_ASSIGN: "^", token.SHL_ASSIGN: "<<", token.SHR_ASSIGN: ">>",
	token.AND_NOT_ASSIGN: "&^",
}

// simplestRat returns the rational with the smallest denominator that
// rounds to the same float64 as r. Typed float constants such as 1/3.0 or
// 1e-10 reach us already rounded to float64; in the real-arithmetic models
// the constant the programmer wrote (1/3, 10^-10) is what is meant.
func simplestRat(r *big.Rat) *big.Rat {
	f, _ := r.Float64()
	if r.IsInt() {
		return r
	}
	// continued-fraction convergents of r
	num := new(big.Int).Set(r.Num())
	den := new(big.Int).Set(r.Denom())
	neg := num.Sign() < 0
	if neg {
		num.Neg(num)
	}
	h0, h1 := big.NewInt(0), big.NewInt(1) // numerators
	k0, k1 := big.NewInt(1), big.NewInt(0) // denominators
	n, d := new(big.Int).Set(num), new(big.Int).Set(den)
	for i := 0; i < 64 && d.Sign() != 0; i++ {
		a, rem := new(big.Int).QuoRem(n, d, new(big.Int))
		h2 := new(big.Int).Add(new(big.Int).Mul(a, h1), h0)
		k2 := new(big.Int).Add(new(big.Int).Mul(a, k1), k0)
		h0, h1, k0, k1 = h1, h2, k1, k2
		c := new(big.Rat).SetFrac(h1, k1)
		if neg {
			c.Neg(c)
		}
		if g, _ := c.Float64(); g == f {
			return c
		}
		n, d = d, rem
	}
	return r
}
