package main

// Contract files: //@ lines in /repo/<pkg>/zz_contracts_verif.go.
// This file has the line-level parser and the expression parser.

import (
	"fmt"
	"os"
	"strings"
	"unicode"
)

type CExpr struct {
	Kind string // id int float bool bin un cond call index update field quant slice lit old star
	Name string // identifier, field name, callee, literal text, struct type
	Op   string
	Args []*CExpr
	Vars []QVar
	Pats []*CExpr // quantifier trigger (one multi-pattern)
	Src  string
}

type QVar struct {
	Name   string
	Type   *CType
	Lo, Hi *CExpr
}

type CType struct {
	Kind   string // int real bool float64 uint32 byte uint slice ptr named func
	Elem   *CType
	Name   string
	Params []*CType // func
	Ret    *CType   // func
}

func (t *CType) String() string {
	switch t.Kind {
	case "slice":
		return "[]" + t.Elem.String()
	case "ptr":
		return "*" + t.Elem.String()
	case "named":
		return t.Name
	}
	return t.Kind
}

type Clause struct {
	Label   string
	Assumed bool // label starts with "assumed": exported to callers, not checked (listed as an assumption)
	E       *CExpr
	Src     string
}

type LoopContract struct {
	Ordinal   int
	Var       string
	Invs      []Clause
	Modifies  []*CExpr
	HasMod    bool
	Forget    bool     // at this loop head, drop the invariant facts of enclosing loops (the invariant is self-contained)
	Preserves []*CExpr // cells (possibly allocated by this function) that the loop does not write
}

type Param struct {
	Name string
	Type *CType
}

type FuncContract struct {
	Key        string // e.g. "StreamStats.Combine", "labeledMerge", "InvCDF#lit1"
	Pkg        string // package name
	Model      string
	Requires   []Clause
	Ensures    []Clause
	Assigns    []*CExpr
	HasAssigns bool
	Loops      map[int]*LoopContract
	Inline     bool
	Assume     bool
	Results    []string
	Trusted    string
	File       string
	Line       int
	Lets       []LetDef
	Witnesses  []WitnessDef // ghost results: witness name = expr @retN
	Uses       []string
	Abstract   []string         // spec functions treated as uninterpreted (over the heaps they read) in this function
	Fuel       int              // rounds of ground unfolding of recursive specs in this function (0: default 2)
	Snapshots  []WitnessDef     // ghost values captured at an anchor: snapshot name = expr @anchor
	Checks     []AnchoredAssert // return-time assertions over locals (not exported to callers)
	Pure       bool             // assume func: result is a function of args only (deterministic)
	Asserts    []AnchoredAssert
	Dispatch   bool // method: its contract describes pure interface calls on boxed receivers (calls.go dispatchLink)
	MayPanic   string // non-empty: explicit panic statements of this function are allowed outcomes (reason); ensures hold on normal return only
}

type AnchoredAssert struct {
	By     []*CExpr // explicit lemma applications whose instances are hypotheses of this assertion only
	Anchor string   // "after N" statement ordinal (top-level statements of body), or "loop N body"
	Cl     Clause
	Assume bool
}

type WitnessDef struct {
	Name   string
	Anchor string
	E      *CExpr
}

type LetDef struct {
	Name string
	E    *CExpr
}

type SpecFunc struct {
	Name   string
	Pkg    string
	Params []Param
	Ret    *CType
	Body   *CExpr
	Rec    bool
	Src    string
	Opaque bool // declared without body
}

type GhostType struct {
	Name   string
	Fields []Param
}

type Lemma struct {
	Name       string
	Pkg        string
	Params     []Param
	Induction  string
	SameParams bool // induction hypothesis only for the same values of the other parameters (a ground formula)
	Requires   []Clause
	Ensures    []Clause
	Model      string
	Trigger    []*CExpr
	Uses       []string // earlier lemmas available as hypotheses in this lemma's proof
	By         []*CExpr // explicit applications of earlier lemmas (ground instances) available in this lemma\'s proof
}

type PureDecl struct {
	Key string // "Ticker.CountTicks" or "func:name"
}

type ContractFile struct {
	Pkg      string
	Funcs    []*FuncContract
	Specs    []*SpecFunc
	Ghosts   []*GhostType
	Lemmas   []*Lemma
	Pures    []string
	Symbolic []string // globals declared symbolic
	Axioms   []Clause
}

// ---------------------------------------------------------------------
// line-level parsing

var directiveKW = map[string]bool{
	"func": true, "assume": true, "spec": true, "ghost": true, "lemma": true, "pure": true,
	"global": true, "model": true, "requires": true, "ensures": true, "assigns": true,
	"loop": true, "inline": true, "dispatch": true, "abstract": true, "results": true, "trusted": true, "maypanic": true, "reads": true,
	"induction": true, "let": true, "axiom": true, "deterministic": true, "trigger": true,
	"assert": true, "use": true, "by": true, "fuel": true, "snapshot": true, "check": true, "witness": true,
}

type rawDirective struct {
	kw   string
	text string
	line int
}

func parseContractFile(path, pkg string) (*ContractFile, error) {
	data, err := os.ReadFile(path)
	if err != nil {
		return nil, err
	}
	var dirs []rawDirective
	for i, ln := range strings.Split(string(data), "\n") {
		t := strings.TrimSpace(ln)
		if !strings.HasPrefix(t, "//@") {
			continue
		}
		body := strings.TrimSpace(t[3:])
		// strip trailing "// comment"
		if k := strings.Index(body, " // "); k >= 0 {
			body = strings.TrimSpace(body[:k])
		}
		if body == "" {
			continue
		}
		first := body
		if k := strings.IndexFunc(body, func(r rune) bool { return !(unicode.IsLetter(r)) }); k >= 0 {
			first = body[:k]
		}
		if directiveKW[first] {
			dirs = append(dirs, rawDirective{kw: first, text: strings.TrimSpace(body[len(first):]), line: i + 1})
		} else if len(dirs) > 0 {
			dirs[len(dirs)-1].text += " " + body
		} else {
			return nil, fmt.Errorf("%s:%d: continuation line without directive", path, i+1)
		}
	}
	cf := &ContractFile{Pkg: pkg}
	var cur *FuncContract
	var curLemma *Lemma
	fail := func(d rawDirective, f string, a ...any) error {
		return fmt.Errorf("%s:%d: %s", path, d.line, fmt.Sprintf(f, a...))
	}
	for _, d := range dirs {
		var perr error
		func() {
			defer func() {
				if r := recover(); r != nil {
					if pe, ok := r.(parseError); ok {
						perr = fail(d, "%s (in %q)", string(pe), d.text)
						return
					}
					panic(r)
				}
			}()
			switch d.kw {
			case "func", "assume":
				text := d.text
				assume := d.kw == "assume"
				if assume {
					if strings.HasPrefix(text, "pure ") {
						cf.Pures = append(cf.Pures, strings.TrimSpace(text[5:]))
						return
					}
					if !strings.HasPrefix(text, "func ") {
						perr = fail(d, "expected 'assume func' or 'assume pure'")
						return
					}
					text = strings.TrimSpace(text[5:])
				}
				key := text
				if k := strings.IndexAny(text, " (\t"); k >= 0 {
					key = text[:k]
				}
				cur = &FuncContract{Key: key, Pkg: pkg, Loops: map[int]*LoopContract{}, Assume: assume, File: path, Line: d.line}
				curLemma = nil
				cf.Funcs = append(cf.Funcs, cur)
			case "spec":
				sf := parseSpecDecl(d.text)
				sf.Pkg = pkg
				cf.Specs = append(cf.Specs, sf)
				cur, curLemma = nil, nil
			case "ghost":
				gt := parseGhostType(d.text)
				cf.Ghosts = append(cf.Ghosts, gt)
				cur, curLemma = nil, nil
			case "lemma":
				lm := parseLemmaDecl(d.text)
				lm.Pkg = pkg
				cf.Lemmas = append(cf.Lemmas, lm)
				curLemma, cur = lm, nil
			case "global":
				f := strings.Fields(d.text)
				if len(f) == 2 && f[1] == "symbolic" {
					cf.Symbolic = append(cf.Symbolic, f[0])
				} else {
					perr = fail(d, "expected 'global Name symbolic'")
				}
			case "axiom":
				cf.Axioms = append(cf.Axioms, parseClause(d.text))
			case "model":
				if curLemma != nil {
					curLemma.Model = strings.TrimSpace(d.text)
				} else if cur != nil {
					cur.Model = strings.TrimSpace(d.text)
				} else {
					perr = fail(d, "model outside func")
				}
			case "requires":
				c := parseClause(d.text)
				if curLemma != nil {
					curLemma.Requires = append(curLemma.Requires, c)
				} else if cur != nil {
					cur.Requires = append(cur.Requires, c)
				} else {
					perr = fail(d, "requires outside func")
				}
			case "ensures":
				c := parseClause(d.text)
				if curLemma != nil {
					curLemma.Ensures = append(curLemma.Ensures, c)
				} else if cur != nil {
					cur.Ensures = append(cur.Ensures, c)
				} else {
					perr = fail(d, "ensures outside func")
				}
			case "trigger":
				if curLemma == nil {
					perr = fail(d, "trigger outside lemma")
					return
				}
				curLemma.Trigger = parseExprList(d.text)
			case "induction":
				if curLemma == nil {
					perr = fail(d, "induction outside lemma")
					return
				}
				curLemma.Induction = strings.TrimSpace(d.text)
			case "assigns":
				if cur == nil {
					perr = fail(d, "assigns outside func")
					return
				}
				cur.HasAssigns = true
				if strings.TrimSpace(d.text) != "nothing" {
					cur.Assigns = append(cur.Assigns, parseExprList(d.text)...)
				}
			case "let":
				if cur == nil {
					perr = fail(d, "let outside func")
					return
				}
				k := strings.Index(d.text, "=")
				cur.Lets = append(cur.Lets, LetDef{Name: strings.TrimSpace(d.text[:k]), E: parseExprString(d.text[k+1:])})
			case "loop":
				if cur == nil {
					perr = fail(d, "loop outside func")
					return
				}
				// loop N (var) invariant [label] expr | loop N modifies a, b
				var n int
				rest := d.text
				if _, err := fmt.Sscanf(rest, "%d", &n); err != nil {
					perr = fail(d, "loop ordinal expected")
					return
				}
				rest = strings.TrimSpace(strings.TrimLeft(rest, "0123456789"))
				lc := cur.Loops[n]
				if lc == nil {
					lc = &LoopContract{Ordinal: n}
					cur.Loops[n] = lc
				}
				if strings.HasPrefix(rest, "(") {
					k := strings.Index(rest, ")")
					lc.Var = strings.TrimSpace(rest[1:k])
					rest = strings.TrimSpace(rest[k+1:])
				}
				switch {
				case strings.HasPrefix(rest, "invariant"):
					lc.Invs = append(lc.Invs, parseClause(strings.TrimSpace(rest[len("invariant"):])))
				case strings.HasPrefix(rest, "forget"):
					lc.Forget = true
				case strings.HasPrefix(rest, "preserves"):
					lc.HasMod = true
					lc.Preserves = append(lc.Preserves, parseExprList(strings.TrimSpace(rest[len("preserves"):]))...)
				case strings.HasPrefix(rest, "modifies"):
					lc.HasMod = true
					r := strings.TrimSpace(rest[len("modifies"):])
					if r != "nothing" {
						lc.Modifies = append(lc.Modifies, parseExprList(r)...)
					}
				default:
					perr = fail(d, "expected invariant or modifies")
				}
			case "check":
				if cur == nil {
					perr = fail(d, "check outside func")
					return
				}
				rest := d.text
				if !strings.HasPrefix(rest, "@") {
					perr = fail(d, "check needs @retN anchor")
					return
				}
				k := strings.IndexAny(rest, " \t")
				cbody := strings.TrimSpace(rest[k:])
				var cby []*CExpr
				if j := strings.LastIndex(cbody, " by "); j >= 0 {
					cby = parseExprList(strings.TrimSpace(cbody[j+4:]))
					cbody = strings.TrimSpace(cbody[:j])
				}
				cur.Checks = append(cur.Checks, AnchoredAssert{Anchor: rest[1:k], Cl: parseClause(cbody), By: cby})
			case "witness":
				// witness name = expr @retN
				if cur == nil {
					perr = fail(d, "witness outside func")
					return
				}
				eq := strings.Index(d.text, "=")
				at := strings.LastIndex(d.text, "@")
				if eq < 0 || at < eq {
					perr = fail(d, "expected: witness name = expr @retN")
					return
				}
				cur.Witnesses = append(cur.Witnesses, WitnessDef{Name: strings.TrimSpace(d.text[:eq]), Anchor: strings.TrimSpace(d.text[at+1:]), E: parseExprString(d.text[eq+1 : at])})
			case "by":
				if curLemma == nil {
					perr = fail(d, "by outside lemma")
					return
				}
				curLemma.By = append(curLemma.By, parseExprList(d.text)...)
			case "use":
				if curLemma != nil {
					for _, f := range strings.Split(d.text, ",") {
						curLemma.Uses = append(curLemma.Uses, strings.TrimSpace(f))
					}
					return
				}
				if cur == nil {
					perr = fail(d, "use outside func")
					return
				}
				for _, f := range strings.Split(d.text, ",") {
					cur.Uses = append(cur.Uses, strings.TrimSpace(f))
				}
			case "snapshot":
				if cur == nil {
					perr = fail(d, "snapshot outside func")
					return
				}
				seq := strings.Index(d.text, "=")
				sat := strings.LastIndex(d.text, "@")
				if seq < 0 || sat < seq {
					perr = fail(d, "expected: snapshot name = expr @anchor")
					return
				}
				cur.Snapshots = append(cur.Snapshots, WitnessDef{Name: strings.TrimSpace(d.text[:seq]), Anchor: strings.TrimSpace(d.text[sat+1:]), E: parseExprString(d.text[seq+1 : sat])})
			case "fuel":
				if cur == nil {
					perr = fail(d, "fuel outside func")
					return
				}
				fmt.Sscanf(strings.TrimSpace(d.text), "%d", &cur.Fuel)
			case "abstract":
				if cur == nil {
					perr = fail(d, "abstract outside func")
					return
				}
				for _, f := range strings.Split(d.text, ",") {
					cur.Abstract = append(cur.Abstract, strings.TrimSpace(f))
				}
			case "inline":
				if cur == nil {
					perr = fail(d, "inline outside func")
					return
				}
				cur.Inline = true
			case "dispatch":
				if cur == nil {
					perr = fail(d, "dispatch outside func")
					return
				}
				cur.Dispatch = true
			case "deterministic":
				if cur == nil {
					perr = fail(d, "deterministic outside func")
					return
				}
				cur.Pure = true
			case "results":
				if cur == nil {
					perr = fail(d, "results outside func")
					return
				}
				for _, f := range strings.Split(d.text, ",") {
					cur.Results = append(cur.Results, strings.TrimSpace(f))
				}
			case "trusted":
				if cur != nil {
					cur.Trusted = d.text
				}
			case "maypanic":
				if cur == nil || strings.TrimSpace(d.text) == "" {
					perr = fail(d, "maypanic needs a func and a reason")
					return
				}
				cur.MayPanic = strings.TrimSpace(d.text)
			case "assert":
				if cur == nil {
					perr = fail(d, "assert outside func")
					return
				}
				// assert @anchor [label] expr
				rest := d.text
				if !strings.HasPrefix(rest, "@") {
					perr = fail(d, "assert needs @anchor")
					return
				}
				k := strings.IndexAny(rest, " \t")
				body := strings.TrimSpace(rest[k:])
				// optional explicit lemma applications:  ... by lemma(args), lemma(args)
				var by []*CExpr
				if j := strings.LastIndex(body, " by "); j >= 0 {
					by = parseExprList(strings.TrimSpace(body[j+4:]))
					body = strings.TrimSpace(body[:j])
				}
				cur.Asserts = append(cur.Asserts, AnchoredAssert{Anchor: rest[1:k], Cl: parseClause(body), By: by})
			case "reads":
				// informational
			}
		}()
		if perr != nil {
			return nil, perr
		}
	}
	return cf, nil
}

func parseClause(text string) Clause {
	text = strings.TrimSpace(text)
	label := ""
	if strings.HasPrefix(text, "[") {
		k := strings.Index(text, "]")
		label = strings.TrimSpace(text[1:k])
		text = strings.TrimSpace(text[k+1:])
	}
	return Clause{Label: label, Assumed: strings.HasPrefix(label, "assumed"), E: parseExprString(text), Src: text}
}

// ---------------------------------------------------------------------
// lexer

type tok struct {
	k string // id int float op eof
	s string
}

type parseError string

type lexer struct {
	toks []tok
	p    int
	src  string
}

var ops3 = []string{"<==>", "==>", "...", "&^", "<<", ">>", "..", "::", ":=", "==", "!=", "<=", ">=", "&&", "||"}

func lex(s string) []tok {
	var out []tok
	rs := []rune(s)
	i := 0
	for i < len(rs) {
		c := rs[i]
		switch {
		case c == ' ' || c == '\t' || c == '\n':
			i++
		case unicode.IsLetter(c) || c == '_':
			j := i
			for j < len(rs) && (unicode.IsLetter(rs[j]) || unicode.IsDigit(rs[j]) || rs[j] == '_') {
				j++
			}
			out = append(out, tok{"id", string(rs[i:j])})
			i = j
		case c >= '0' && c <= '9':
			j := i
			isf := false
			for j < len(rs) && (rs[j] >= '0' && rs[j] <= '9' || rs[j] == '.' || rs[j] == 'e' || rs[j] == 'E' ||
				((rs[j] == '-' || rs[j] == '+') && (rs[j-1] == 'e' || rs[j-1] == 'E'))) {
				if rs[j] == '.' {
					if j+1 < len(rs) && rs[j+1] == '.' {
						break
					}
					isf = true
				}
				if rs[j] == 'e' || rs[j] == 'E' {
					isf = true
				}
				j++
			}
			if isf {
				out = append(out, tok{"float", string(rs[i:j])})
			} else {
				out = append(out, tok{"int", string(rs[i:j])})
			}
			i = j
		default:
			matched := false
			rest := string(rs[i:])
			for _, o := range ops3 {
				if strings.HasPrefix(rest, o) {
					out = append(out, tok{"op", o})
					i += len([]rune(o))
					matched = true
					break
				}
			}
			if !matched {
				out = append(out, tok{"op", string(c)})
				i++
			}
		}
	}
	out = append(out, tok{"eof", ""})
	return out
}

func (l *lexer) peek() tok { return l.toks[l.p] }
func (l *lexer) next() tok { t := l.toks[l.p]; l.p++; return t }
func (l *lexer) isOp(s string) bool {
	t := l.peek()
	return t.k == "op" && t.s == s
}
func (l *lexer) isID(s string) bool {
	t := l.peek()
	return t.k == "id" && t.s == s
}
func (l *lexer) expectOp(s string) {
	if !l.isOp(s) {
		panic(parseError(fmt.Sprintf("expected %q, got %q", s, l.peek().s)))
	}
	l.next()
}
func (l *lexer) ident() string {
	t := l.next()
	if t.k != "id" {
		panic(parseError(fmt.Sprintf("identifier expected, got %q", t.s)))
	}
	return t.s
}

func parseExprString(s string) *CExpr {
	l := &lexer{toks: lex(s), src: s}
	e := l.parseExpr(0)
	if l.peek().k != "eof" {
		panic(parseError(fmt.Sprintf("trailing tokens at %q", l.peek().s)))
	}
	e.Src = strings.TrimSpace(s)
	return e
}

func parseExprList(s string) []*CExpr {
	l := &lexer{toks: lex(s), src: s}
	var out []*CExpr
	for {
		out = append(out, l.parseExpr(0))
		if l.isOp(",") {
			l.next()
			continue
		}
		break
	}
	if l.peek().k != "eof" {
		panic(parseError(fmt.Sprintf("trailing tokens at %q", l.peek().s)))
	}
	return out
}

// precedence table (binary)
var binPrec = map[string]int{
	"<==>": 1, "==>": 2,
	"||": 4, "&&": 5,
	"==": 6, "!=": 6, "<": 6, "<=": 6, ">": 6, ">=": 6,
	"+": 7, "-": 7, "|": 7, "^": 7,
	"*": 8, "/": 8, "%": 8, "&": 8, "<<": 8, ">>": 8, "&^": 8,
}

func (l *lexer) parseExpr(minPrec int) *CExpr {
	lhs := l.parseUnary()
	for {
		t := l.peek()
		if t.k != "op" {
			break
		}
		if t.s == "?" && minPrec <= 3 {
			l.next()
			a := l.parseExpr(3)
			l.expectOp(":")
			b := l.parseExpr(3)
			lhs = &CExpr{Kind: "cond", Args: []*CExpr{lhs, a, b}}
			continue
		}
		p, ok := binPrec[t.s]
		if !ok || p < minPrec {
			break
		}
		l.next()
		var rhs *CExpr
		if t.s == "==>" {
			rhs = l.parseExpr(p) // right assoc
		} else {
			rhs = l.parseExpr(p + 1)
		}
		lhs = &CExpr{Kind: "bin", Op: t.s, Args: []*CExpr{lhs, rhs}}
	}
	return lhs
}

func (l *lexer) parseUnary() *CExpr {
	t := l.peek()
	if t.k == "op" {
		switch t.s {
		case "-", "!", "^":
			l.next()
			return &CExpr{Kind: "un", Op: t.s, Args: []*CExpr{l.parseUnary()}}
		case "*":
			l.next()
			return &CExpr{Kind: "star", Args: []*CExpr{l.parseUnary()}}
		}
	}
	if t.k == "id" && (t.s == "forall" || t.s == "exists") {
		return l.parseQuant()
	}
	return l.parsePostfix(l.parsePrimary())
}

func (l *lexer) parseQuant() *CExpr {
	kind := l.next().s
	q := &CExpr{Kind: "quant", Op: kind}
	for {
		name := l.ident()
		v := QVar{Name: name}
		if l.isID("in") {
			l.next()
			v.Lo = l.parseExpr(7)
			l.expectOp("..")
			v.Hi = l.parseExpr(7)
			v.Type = &CType{Kind: "int"}
		} else {
			v.Type = l.parseType()
		}
		q.Vars = append(q.Vars, v)
		if l.isOp(",") {
			l.next()
			continue
		}
		break
	}
	if l.isOp("@") { // optional trigger: @[ t1, t2 ] (one multi-pattern)
		l.next()
		l.expectOp("[")
		for !l.isOp("]") {
			q.Pats = append(q.Pats, l.parseExpr(0))
			if l.isOp(",") {
				l.next()
			}
		}
		l.next()
	}
	l.expectOp("::")
	q.Args = []*CExpr{l.parseExpr(0)}
	return q
}

func (l *lexer) parseType() *CType {
	if l.isOp("[") {
		l.next()
		l.expectOp("]")
		return &CType{Kind: "slice", Elem: l.parseType()}
	}
	if l.isOp("*") {
		l.next()
		return &CType{Kind: "ptr", Elem: l.parseType()}
	}
	n := l.ident()
	switch n {
	case "int", "real", "bool", "float64", "uint32", "byte", "uint", "int64":
		return &CType{Kind: n}
	case "func":
		ft := &CType{Kind: "func"}
		l.expectOp("(")
		for !l.isOp(")") {
			ft.Params = append(ft.Params, l.parseType())
			if l.isOp(",") {
				l.next()
			}
		}
		l.expectOp(")")
		ft.Ret = l.parseType()
		return ft
	}
	if l.isOp(".") { // pkg.Name
		l.next()
		n = n + "." + l.ident()
	}
	return &CType{Kind: "named", Name: n}
}

func (l *lexer) parsePrimary() *CExpr {
	t := l.next()
	switch t.k {
	case "int":
		return &CExpr{Kind: "int", Name: t.s}
	case "float":
		return &CExpr{Kind: "float", Name: t.s}
	case "id":
		switch t.s {
		case "true", "false":
			return &CExpr{Kind: "bool", Name: t.s}
		case "old":
			l.expectOp("(")
			e := l.parseExpr(0)
			l.expectOp(")")
			return &CExpr{Kind: "old", Args: []*CExpr{e}}
		case "hastype": // hastype(e, T): the dynamic type of interface value e is T
			if l.isOp("(") {
				l.next()
				e := l.parseExpr(0)
				l.expectOp(",")
				t := l.parseType()
				l.expectOp(")")
				return &CExpr{Kind: "hastype", Args: []*CExpr{e}, Vars: []QVar{{Type: t}}}
			}
		}
		// struct literal: Name{...}
		if l.isOp("{") {
			l.next()
			lit := &CExpr{Kind: "lit", Name: t.s}
			for !l.isOp("}") {
				lit.Args = append(lit.Args, l.parseExpr(0))
				if l.isOp(",") {
					l.next()
				}
			}
			l.expectOp("}")
			return lit
		}
		return &CExpr{Kind: "id", Name: t.s}
	case "op":
		if t.s == "(" {
			e := l.parseExpr(0)
			l.expectOp(")")
			return &CExpr{Kind: "paren", Args: []*CExpr{e}}
		}
	}
	panic(parseError(fmt.Sprintf("unexpected token %q", t.s)))
}

func (l *lexer) parsePostfix(e *CExpr) *CExpr {
	for {
		switch {
		case l.isOp("("):
			l.next()
			call := &CExpr{Kind: "call", Args: nil}
			if e.Kind == "id" {
				call.Name = e.Name
			} else if e.Kind == "field" {
				// method-style call x.f(args): callee name is field, receiver first arg
				call.Name = "." + e.Name
				call.Args = append(call.Args, e.Args[0])
			} else {
				// application of a function-valued expression: f(x)(y)
				call.Kind = "apply"
				call.Args = append(call.Args, e)
			}
			for !l.isOp(")") {
				call.Args = append(call.Args, l.parseExpr(0))
				if l.isOp(",") {
					l.next()
				}
			}
			l.expectOp(")")
			e = call
		case l.isOp("["):
			l.next()
			if l.isOp("*") && l.toks[l.p+1].k == "op" && l.toks[l.p+1].s == "]" {
				l.next()
				l.next()
				e = &CExpr{Kind: "allelems", Args: []*CExpr{e}}
				continue
			}
			var lo *CExpr
			if !l.isOp(":") {
				lo = l.parseExpr(0)
			}
			switch {
			case l.isOp(":="):
				l.next()
				v := l.parseExpr(0)
				l.expectOp("]")
				e = &CExpr{Kind: "update", Args: []*CExpr{e, lo, v}}
			case l.isOp(":"):
				l.next()
				var hi *CExpr
				if !l.isOp("]") {
					hi = l.parseExpr(0)
				}
				l.expectOp("]")
				e = &CExpr{Kind: "slice", Args: []*CExpr{e, lo, hi}}
			default:
				l.expectOp("]")
				e = &CExpr{Kind: "index", Args: []*CExpr{e, lo}}
			}
		case l.isOp("."):
			l.next()
			if l.isOp("(") { // e.(T): the value boxed in an interface handle
				l.next()
				t := l.parseType()
				l.expectOp(")")
				e = &CExpr{Kind: "unbox", Args: []*CExpr{e}, Vars: []QVar{{Type: t}}}
				continue
			}
			e = &CExpr{Kind: "field", Name: l.ident(), Args: []*CExpr{e}}
		default:
			return e
		}
	}
}

// ---------------------------------------------------------------------
// declarations

func parseParams(l *lexer) []Param {
	var ps []Param
	l.expectOp("(")
	var pending []string
	for !l.isOp(")") {
		name := l.ident()
		if l.isOp(",") {
			l.next()
			pending = append(pending, name)
			continue
		}
		ty := l.parseType()
		for _, p := range pending {
			ps = append(ps, Param{Name: p, Type: ty})
		}
		pending = nil
		ps = append(ps, Param{Name: name, Type: ty})
		if l.isOp(",") {
			l.next()
		}
	}
	l.expectOp(")")
	return ps
}

func parseSpecDecl(text string) *SpecFunc {
	l := &lexer{toks: lex(text), src: text}
	sf := &SpecFunc{Name: l.ident(), Src: text}
	sf.Params = parseParams(l)
	sf.Ret = l.parseType()
	if l.peek().k == "eof" {
		sf.Opaque = true
		return sf
	}
	l.expectOp("=")
	sf.Body = l.parseExpr(0)
	if l.peek().k != "eof" {
		panic(parseError(fmt.Sprintf("trailing tokens at %q", l.peek().s)))
	}
	// recursion check
	var walk func(e *CExpr)
	walk = func(e *CExpr) {
		if e == nil {
			return
		}
		if e.Kind == "call" && e.Name == sf.Name {
			sf.Rec = true
		}
		for _, a := range e.Args {
			walk(a)
		}
		for _, v := range e.Vars {
			walk(v.Lo)
			walk(v.Hi)
		}
	}
	walk(sf.Body)
	return sf
}

func parseGhostType(text string) *GhostType {
	// type view struct { n int; S, Q real }
	l := &lexer{toks: lex(text), src: text}
	if l.ident() != "type" {
		panic(parseError("ghost type expected"))
	}
	gt := &GhostType{Name: l.ident()}
	if l.ident() != "struct" {
		panic(parseError("struct expected"))
	}
	l.expectOp("{")
	var pending []string
	for !l.isOp("}") {
		name := l.ident()
		if l.isOp(",") {
			l.next()
			pending = append(pending, name)
			continue
		}
		ty := l.parseType()
		for _, p := range pending {
			gt.Fields = append(gt.Fields, Param{Name: p, Type: ty})
		}
		pending = nil
		gt.Fields = append(gt.Fields, Param{Name: name, Type: ty})
		if l.isOp(";") {
			l.next()
		}
	}
	return gt
}

func parseLemmaDecl(text string) *Lemma {
	l := &lexer{toks: lex(text), src: text}
	lm := &Lemma{Name: l.ident()}
	lm.Params = parseParams(l)
	if l.isID("induction") {
		l.next()
		lm.Induction = l.ident()
		if l.isID("same") { // the other parameters keep their values in the induction hypothesis
			l.next()
			lm.SameParams = true
		}
	}
	return lm
}
