package main

// Loop havoc: which variables and which pre-existing heap cells a loop may
// change. Heap writes are summarised as a list of write targets evaluated
// in the pre-loop state; the loop-head heap is the pre-loop heap with
// exactly those cells replaced by fresh values (regions allocated inside
// the loop are above the pre-loop allocation counter and unconstrained).

import (
	"go/ast"
	"go/constant"
	"go/token"
	"go/types"
	"strings"
)

type writeTarget struct {
	heap    string
	expr    ast.Expr      // slice or pointer expression (evaluated pre-loop), or nil
	fc      *FuncContract // callee contract whose assigns are to be instantiated
	call    *ast.CallExpr
	fi      *FuncInfo
	unknown bool
	why     string
	mapType *types.Map // store into a map: the value, presence and length heaps of that map type
	sort    Sort       // sort of the heap (so that it can be registered if the loop is its first user)
	whole   bool       // havoc the whole heap (a store through a pointer that may point into a slice)
}

type loopEffects struct {
	any     bool
	targets []writeTarget
}

func (x *Exec) collectEffects(nodes ...ast.Node) loopEffects {
	var eff loopEffects
	info := x.info()
	unknown := func(why string) {
		eff.any = true
		eff.targets = append(eff.targets, writeTarget{unknown: true, why: why})
	}
	// a store through a pointer: the pointer heap cell, and - because the
	// pointer may be an interior pointer &a[i] - the whole element heap of
	// slices of that type
	ptrStore := func(ty *Ty, pe ast.Expr) {
		es := x.w.sortOf(ty.Elem, x.model)
		hn, hs := ptrHeap(es)
		eff.targets = append(eff.targets, writeTarget{heap: hn, expr: pe, sort: hs})
		en, ehs := elemHeap(es)
		eff.targets = append(eff.targets, writeTarget{heap: en, sort: ehs, whole: true})
	}
	var store func(e ast.Expr)
	store = func(e ast.Expr) {
		switch t := e.(type) {
		case *ast.ParenExpr:
			store(t.X)
		case *ast.IndexExpr:
			eff.any = true
			tv, ok := info.Types[t.X]
			if !ok {
				unknown("untyped index base")
				return
			}
			ty := x.w.goTy(tv.Type, x.model.BV)
			switch ty.K {
			case TSlice:
				hn, _ := elemHeap(x.w.sortOf(ty.Elem, x.model))
				eff.targets = append(eff.targets, writeTarget{heap: hn, expr: t.X})
			case TOpaque:
				mt, isMap := ty.Go.Underlying().(*types.Map)
				if !isMap {
					unknown("index store into a non-map opaque value")
					return
				}
				tag := sanitize(mt.String())
				for _, pre := range []string{"MV_", "MP_", "ML_"} {
					eff.targets = append(eff.targets, writeTarget{heap: pre + tag, expr: t.X, mapType: mt})
				}
			default:
				unknown("index store into unsupported base")
			}
		case *ast.SelectorExpr:
			sel := info.Selections[t]
			if sel == nil || sel.Kind() != types.FieldVal {
				return
			}
			tv := info.Types[t.X]
			ty := x.w.goTy(tv.Type, x.model.BV)
			if ty.K == TPtr {
				eff.any = true
				ptrStore(ty, t.X)
				return
			}
			store(t.X) // field of a struct-valued lvalue
		case *ast.StarExpr:
			eff.any = true
			tv := info.Types[t.X]
			ty := x.w.goTy(tv.Type, x.model.BV)
			if ty.K == TPtr {
				ptrStore(ty, t.X)
				return
			}
			unknown("store through non-pointer")
		case *ast.Ident:
			if o, ok := info.ObjectOf(t).(*types.Var); ok && x.heapified[o] {
				eff.any = true
				ty := x.w.goTy(o.Type(), x.model.BV)
				hn, _ := ptrHeap(x.w.sortOf(ty, x.model))
				eff.targets = append(eff.targets, writeTarget{heap: hn, expr: &ast.UnaryExpr{Op: token.AND, X: t}})
			}
		}
	}
	for _, n := range nodes {
		if n == nil {
			continue
		}
		ast.Inspect(n, func(n ast.Node) bool {
			switch s := n.(type) {
			case *ast.IfStmt:
				if tv, ok := info.Types[s.Cond]; ok && tv.Value != nil && tv.Value.Kind() == constant.Bool && !constant.BoolVal(tv.Value) {
					// dead branch (constant false condition): only the else part counts
					if s.Else != nil {
						sub := x.collectEffects(s.Else)
						if sub.any {
							eff.any = true
							eff.targets = append(eff.targets, sub.targets...)
						}
					}
					return false
				}
			case *ast.AssignStmt:
				for _, l := range s.Lhs {
					store(l)
				}
			case *ast.IncDecStmt:
				store(s.X)
			case *ast.CompositeLit:
				if tv, ok := info.Types[s]; ok {
					switch tv.Type.Underlying().(type) {
					case *types.Slice, *types.Map:
						eff.any = true
					}
				}
			case *ast.UnaryExpr:
				if s.Op == token.AND {
					eff.any = true
				}
			case *ast.CallExpr:
				x.callEffects(s, &eff, unknown)
			case *ast.FuncLit:
				return false // a literal's body runs when it is called, not where it is written
			}
			return true
		})
	}
	return eff
}

// invariantExpr: e mentions no variable assigned in the loop.
func (x *Exec) invariantExpr(e ast.Expr, assigned map[types.Object]bool) bool {
	ok := true
	ast.Inspect(e, func(n ast.Node) bool {
		switch t := n.(type) {
		case *ast.Ident:
			if o, isVar := x.info().ObjectOf(t).(*types.Var); isVar && assigned[o] {
				ok = false
			}
		case *ast.CallExpr:
			ok = false
		}
		return ok
	})
	return ok
}

// selfGrowing: every assignment to o inside the nodes has the form
// o = append(o, ...), o = make(...), o = T{...} or o = o[a:b], so that
// whenever o's region changes it becomes a region allocated in the loop.
func (x *Exec) selfGrowing(o types.Object, nodes ...ast.Node) bool {
	ok := true
	info := x.info()
	for _, n := range nodes {
		if n == nil {
			continue
		}
		ast.Inspect(n, func(n ast.Node) bool {
			as, isAs := n.(*ast.AssignStmt)
			if !isAs {
				if r, isR := n.(*ast.RangeStmt); isR {
					for _, kv := range []ast.Expr{r.Key, r.Value} {
						if id, isID := kv.(*ast.Ident); isID && info.ObjectOf(id) == o {
							ok = false
						}
					}
				}
				return true
			}
			for i, l := range as.Lhs {
				id, isID := l.(*ast.Ident)
				if !isID || info.ObjectOf(id) != o {
					continue
				}
				if len(as.Rhs) != len(as.Lhs) {
					ok = false
					continue
				}
				switch r := as.Rhs[i].(type) {
				case *ast.CallExpr:
					fid, _ := r.Fun.(*ast.Ident)
					if fid == nil {
						ok = false
						break
					}
					if _, isB := info.ObjectOf(fid).(*types.Builtin); !isB {
						ok = false
						break
					}
					switch fid.Name {
					case "make":
					case "append":
						if !x.rootedAt(r.Args[0], o) {
							ok = false
						}
					default:
						ok = false
					}
				case *ast.CompositeLit:
				case *ast.SliceExpr:
					a0, _ := r.X.(*ast.Ident)
					if a0 == nil || info.ObjectOf(a0) != o {
						ok = false
					}
				default:
					ok = false
				}
			}
			return true
		})
	}
	return ok
}

// rootedAt: e is o, o[a:b], or append(<rootedAt o>, ...).
func (x *Exec) rootedAt(e ast.Expr, o types.Object) bool {
	switch t := e.(type) {
	case *ast.ParenExpr:
		return x.rootedAt(t.X, o)
	case *ast.Ident:
		return x.info().ObjectOf(t) == o
	case *ast.SliceExpr:
		return x.rootedAt(t.X, o)
	case *ast.CallExpr:
		if id, ok := t.Fun.(*ast.Ident); ok && id.Name == "append" {
			if _, isB := x.info().ObjectOf(id).(*types.Builtin); isB {
				return x.rootedAt(t.Args[0], o)
			}
		}
	}
	return false
}

func (x *Exec) havocLoop(st *State, lc *LoopContract, ord int, pos token.Pos, nodes ...ast.Node) {
	before := map[string]*Term{}
	for k, v := range st.heaps {
		before[k] = v
	}
	x.havocLoop0(st, lc, ord, pos, nodes...)
	// Every value stored in the heap satisfies its type invariant: slice
	// headers (also inside structs) are well formed and their regions were
	// allocated before now, pointers are valid. True in every reachable
	// state (values are valid when stored, the counter only grows), and
	// needed for cells the invariants quantify over.
	for _, hn := range sortedKeys(st.heaps) {
		h := st.heaps[hn]
		ty := x.heapElemTy[hn]
		if h == before[hn] || ty == nil {
			continue
		}
		r := BoundVar{Name: x.freshBound("r"), Sort: SInt}
		switch {
		case strings.HasPrefix(hn, "H_"):
			i := BoundVar{Name: x.freshBound("i"), Sort: SInt}
			cell := Select(Select(h, mk(r.Name, SInt)), mk(i.Name, SInt))
			if inv := x.typeInv(cell, ty, st.alloc); !isLit(inv, "true") {
				st.assume(Forall([]BoundVar{r, i}, inv, cell))
			}
		case strings.HasPrefix(hn, "P_"):
			cell := Select(h, mk(r.Name, SInt))
			if inv := x.typeInv(cell, ty, st.alloc); !isLit(inv, "true") {
				st.assume(Forall([]BoundVar{r}, inv, cell))
			}
		}
	}
}

func (x *Exec) havocLoop0(st *State, lc *LoopContract, ord int, pos token.Pos, nodes ...ast.Node) {
	x.fieldAsg = nil
	asg := x.assignedIn(nodes...)
	fieldAsg := x.fieldAsg
	pre := st.clone()
	eff := x.collectEffects(nodes...)
	for _, t := range eff.targets {
		// heaps this loop may be the first to touch
		if t.sort != "" {
			x.heap(st, t.heap, t.sort)
		}
		if t.mapType != nil {
			x.mapHeaps(st, t.mapType)
			x.mapLenHeap(st, t.mapType)
		}
	}
	// new allocation counter
	if eff.any {
		na := x.sym.Fresh("alloc", SInt)
		st.assume(Ge(na, st.alloc))
		st.setAllocBase(na)
	}
	for o := range asg {
		v, ok := o.(*types.Var)
		if !ok {
			continue
		}
		if _, in := st.vars[o]; !in {
			continue // declared inside the loop
		}
		if x.heapified[o] {
			continue // lives in the heap
		}
		if v.Pkg() != nil && v.Parent() == v.Pkg().Scope() {
			continue
		}
		ty := x.w.goTy(v.Type(), x.model.BV)
		if whole := asg[o]; !whole && fieldAsg[o] != nil && ty.K == TStruct {
			// only some fields are assigned: the others keep their values
			cur := st.vars[o]
			for fi := range fieldAsg[o] {
				fty := ty.Struct.Fields[fi].Ty
				ff := x.sym.Fresh(v.Name()+"_"+ty.Struct.Fields[fi].Name, x.w.sortOf(fty, x.model))
				st.assume(x.typeInv(ff, fty, st.alloc))
				cur = x.structSet(cur, ty, fi, ff)
			}
			st.vars[o] = cur
			continue
		}
		f := x.sym.Fresh(v.Name(), x.w.sortOf(ty, x.model))
		st.vars[o] = f
		st.assume(x.typeInv(f, ty, st.alloc))
	}
	// globals assigned in the loop
	for o := range asg {
		if v, ok := o.(*types.Var); ok && v.Pkg() != nil && v.Parent() == v.Pkg().Scope() {
			x.readGlobal(st, v)
			ty := x.w.goTy(v.Type(), x.model.BV)
			st.globals[o] = x.sym.Fresh("glob_"+v.Name(), x.w.sortOf(ty, x.model))
		}
	}
	if !eff.any {
		return
	}
	if lc.HasMod {
		// explicit frame, relative to function entry: cells that existed at
		// function entry and are not listed keep their pre-loop contents;
		// everything allocated since entry may change (invariants must say
		// what they need about it). Checked at the end of the body.
		env := x.invEnv(pre, pos, nil)
		targets := x.assignTargets(env, lc.Modifies)
		for _, hn := range sortedKeys(x.heapSorts) {
			hs := x.heapSorts[hn]
			hpre := x.heap(st, hn, hs)
			nh := x.sym.Fresh(hn, hs)
			k := BoundVar{Name: x.freshBound("r"), Sort: SInt}
			kt := mk(k.Name, SInt)
			conds := []*Term{Le(IntLit(0), kt), Lt(kt, x.entry0Alloc())}
			for _, t := range targets {
				if t.heap == hn {
					conds = append(conds, Not(Eq(kt, t.key)))
				}
			}
			st.heaps[hn] = nh
			st.assume(Forall([]BoundVar{k}, Implies(And(conds...), Eq(Select(nh, kt), Select(hpre, kt))), Select(nh, kt)))
			for _, t := range x.assignTargets(env, lc.Preserves) {
				if t.heap == hn {
					st.assume(Eq(Select(nh, t.key), Select(hpre, t.key)))
				}
			}
		}
		return
	}
	// evaluate targets in the pre-loop state (on a scratch copy so that no
	// obligations or assumptions leak)
	type cell struct {
		heap string
		key  *Term
	}
	var cells []cell
	fullHavoc := map[string]bool{}
	allUnknown := false
	nob := len(x.obls)
	for _, t := range eff.targets {
		if t.sort != "" {
			x.heap(st, t.heap, t.sort)
		}
		if t.whole {
			fullHavoc[t.heap] = true
			continue
		}
		if t.mapType != nil {
			// make sure the three heaps exist (they may be touched first
			// inside the loop)
			x.mapHeaps(st, t.mapType)
			x.mapLenHeap(st, t.mapType)
		}
		if t.unknown {
			allUnknown = true
			x.notes = append(x.notes, "loop "+x.cur().key+": heap fully havocked ("+t.why+")")
			continue
		}
		if t.fc != nil {
			ks, ok := x.calleeTargets(pre.clone(), t, asg, nodes)
			if !ok {
				allUnknown = true
				continue
			}
			for _, k := range ks {
				cells = append(cells, cell{k.heap, k.key})
			}
			continue
		}
		e := t.expr
		if x.invariantExpr(e, asg) {
			v := x.expr(e, pre.clone())
			var key *Term
			if v.Ty.K == TSlice {
				key = slReg(v.T)
			} else {
				key = v.T
			}
			cells = append(cells, cell{t.heap, key})
			continue
		}
		// variant slice variable that only grows by append
		if id, ok := e.(*ast.Ident); ok {
			if o := x.info().ObjectOf(id); o != nil && x.selfGrowing(o, nodes...) {
				if _, in := pre.vars[o]; in {
					v := x.expr(e, pre.clone())
					cells = append(cells, cell{t.heap, slReg(v.T)})
					continue
				}
				// declared inside the loop body: only fresh regions
				continue
			}
		}
		fullHavoc[t.heap] = true
	}
	x.obls = x.obls[:nob]
	if allUnknown {
		for hn, hs := range x.heapSorts {
			x.heap(st, hn, hs)
			st.heaps[hn] = x.sym.Fresh(hn, hs)
		}
		return
	}
	for hn := range fullHavoc {
		hs, ok := x.heapSorts[hn]
		if !ok {
			panic(engineError{"loop effect on heap " + hn + " that has not been registered (engine limitation)"})
		}
		x.heap(st, hn, hs)
		st.heaps[hn] = x.sym.Fresh(hn, hs)
	}
	for _, c := range cells {
		if fullHavoc[c.heap] {
			continue
		}
		x.havocCell(st, c.heap, c.key)
	}
}

func (x *Exec) havocCell(st *State, hn string, key *Term) {
	hs, ok := x.heapSorts[hn]
	if !ok {
		// never silently skip a havoc: a heap that is first touched inside
		// the loop must have been registered by evaluating the target
		panic(engineError{"loop effect on heap " + hn + " that has not been registered (engine limitation)"})
	}
	h := x.heap(st, hn, hs)
	cell := x.sym.Fresh("cell_"+hn, elemSortOfArray(hs))
	st.heaps[hn] = Store(h, key, cell)
}
