#!/usr/bin/env python3
"""DESIGN.md = design_head.md + section 4 generated from props.json + design_tail.md"""
import json
props={json.loads(l)['id']:json.loads(l) for l in open('/verif/properties.jsonl')}
spec=json.load(open('/verif/props.json'))
out=[open('/verif/design_head.md').read().rstrip("\n"),"","## 4. Per property: what is decided, what is not",""]
w=out.append
for pid in sorted(props):
    p=props[pid]; s=spec.get(pid)
    w(f"### {pid} — {p['title']}\n")
    if not s:
        w("not claimed.\n"); continue
    w(s['explanation']+"\n")
    w("Functions under contract: "+", ".join(f"`{f}`" for f in s['funcs'])+(". Lemmas: "+", ".join(f"`{l}`" for l in s['lemmas']) if s.get('lemmas') else "")+".\n")
    if s.get('exclude_kinds'):
        w("Obligation kinds excluded here (discharged under other properties): "+", ".join(s['exclude_kinds'])+".\n")
    w("Not decided by this check:\n")
    for n in s['not_decided']: w(f"* {n}")
    w("")
out.append(open('/verif/design_tail.md').read())
open('/verif/DESIGN.md','w').write("\n".join(out))
