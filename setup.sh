#!/bin/sh
# Build the gowp verifier offline from files on disk only.
set -e
export GOFLAGS=-mod=mod GOPROXY=off GOSUMDB=off GOTOOLCHAIN=local
cd /verif/gowp
mkdir -p /verif/bin /verif/evidence
go build -o /verif/bin/gowp .
