#!/bin/bash
# Runs every claimed check (quick) on /repo as it is; used before committing evidence.
cd /verif
tier=${1:-quick}
rc=0
for p in $(python3 -c "import json;print(' '.join(c['property_id'] for c in json.load(open('MANIFEST.json'))['checks']))"); do
  ./check.sh $p $tier || rc=1
done
exit $rc
