package scale

import ("testing"; "math")

func TestD10(t *testing.T) {
	s := Linear{Min: 0.1, Max: 0.9}
	s.Nice(TickOptions{Max: 1})
	if math.IsNaN(s.Min) || math.IsNaN(s.Max) || s.Min > 0.1 || s.Max < 0.9 { t.Errorf("Linear.Nice: [%v,%v]", s.Min, s.Max) }
	l, _ := NewLog(2, 300, 10)
	l.Nice(TickOptions{Max: 1})
	if l.Min > 2 || l.Max < 300 { t.Errorf("Log.Nice: [%v,%v]", l.Min, l.Max) }
}
