package fit

import ("testing"; "math")

func TestD9(t *testing.T) {
	xs := []float64{-2, -1, 0, 1, 2, 3}
	ys := make([]float64, len(xs))
	for i, x := range xs { ys[i] = x * x * x }
	r := PolynomialRegression(xs, ys, nil, 3)
	for i, x := range xs {
		if math.Abs(r.F(x)-ys[i]) > 1e-6 { t.Errorf("F(%v)=%v want %v", x, r.F(x), ys[i]) }
	}
}
