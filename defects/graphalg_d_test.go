package graphalg

import ("testing"; "github.com/aclements/go-moremath/graph")

func TestD11(t *testing.T) {
	defer func() { if r := recover(); r != nil { t.Errorf("Mark(1024) panicked: %v", r) } }()
	m := NewNodeMarks()
	m.Mark(1024)
	if !m.Test(1024) { t.Errorf("not marked") }
}

func TestD12(t *testing.T) {
	defer func() { if r := recover(); r != nil { t.Errorf("DomFrontier panicked: %v", r) } }()
	g := graph.MakeBiGraph(graph.IntGraph{0: {2}, 1: {2}, 2: {}})
	df := DomFrontier(g, 0, nil)
	for i, d := range df { if len(d) != 0 { t.Errorf("df[%d]=%v", i, d) } }
}
