package stats

import (
	"math"
	"testing"
)

func TestD1(t *testing.T) {
	if got := (UDist{N1: 2, N2: 3, T: []int{3, 2}}).CDF(0); got != 0 {
		t.Errorf("UDist{2,3,[3,2]}.CDF(0) = %v, want 0", got)
	}
}

// brute force exact conditional distribution
func bruteU(pool []float64, n1 int) (us []float64) {
	n := len(pool)
	idx := make([]int, n1)
	var rec func(start, k int)
	rec = func(start, k int) {
		if k == n1 {
			in := make([]bool, n)
			for _, i := range idx { in[i] = true }
			u := 0.0
			for i := 0; i < n; i++ { if in[i] { for j := 0; j < n; j++ { if !in[j] {
				if pool[i] > pool[j] { u++ } else if pool[i] == pool[j] { u += 0.5 }
			}}}}
			us = append(us, u)
			return
		}
		for i := start; i < n; i++ { idx[k] = i; rec(i+1, k+1) }
	}
	rec(0, 0)
	return
}

func TestD2D3(t *testing.T) {
	x1 := []float64{2, 2, 3}
	x2 := []float64{1, 2, 3, 4}
	pool := append(append([]float64{}, x1...), x2...)
	us := bruteU(pool, len(x1))
	for _, alt := range []LocationHypothesis{LocationLess, LocationGreater, LocationDiffers} {
		r, err := MannWhitneyUTest(x1, x2, alt)
		if err != nil { t.Fatal(err) }
		le, ge := 0.0, 0.0
		for _, u := range us { if u <= r.U { le++ }; if u >= r.U { ge++ } }
		le /= float64(len(us)); ge /= float64(len(us))
		want := map[LocationHypothesis]float64{LocationLess: le, LocationGreater: ge, LocationDiffers: math.Min(1, 2*math.Min(le, ge))}[alt]
		if math.Abs(r.P-want) > 1e-9 { t.Errorf("alt %v: P=%v want %v (U=%v)", alt, r.P, want, r.U) }
	}
}

func TestD4(t *testing.T) {
	s := Sample{Xs: []float64{1, 2}, Weights: []float64{0, 1}}
	if m := s.Mean(); m != 2 { t.Errorf("Mean=%v want 2", m) }
	if m := s.GeoMean(); math.Abs(m-2) > 1e-12 { t.Errorf("GeoMean=%v want 2", m) }
}

func TestD5(t *testing.T) {
	k := KDE{Sample: Sample{Xs: []float64{1, 2, 3}}, Kernel: GaussianKernel, Bandwidth: 1, BoundaryMethod: BoundaryReflect, BoundaryMin: 0.5, BoundaryMax: 4}
	// integrate PDF
	n := 20000
	sum := 0.0
	for i := 0; i < n; i++ {
		x := 0.5 + (float64(i)+0.5)*3.5/float64(n)
		sum += k.PDF(x) * 3.5 / float64(n)
	}
	if math.Abs(sum-1) > 1e-3 { t.Errorf("integral of bounded KDE PDF = %v want 1", sum) }
}

func TestD7(t *testing.T) {
	h := NewLinearHist(0, 10, 10)
	h.Add(-0.5)
	u, bins, _ := h.Counts()
	if u != 1 || bins[0] != 0 { t.Errorf("LinearHist.Add(-0.5): under=%d bin0=%d", u, bins[0]) }
	lh := NewLogHist(10, 1, 1000)
	lh.Add(0.5)
	u, bins, _ = lh.Counts()
	if u != 1 || bins[0] != 0 { t.Errorf("LogHist.Add(0.5): under=%d bin0=%d", u, bins[0]) }
}

func TestD8(t *testing.T) {
	h := NewLinearHist(0, 2, 2)
	h.Add(0.5); h.Add(1.5); h.Add(1.6)
	func() {
		defer func() { if r := recover(); r != nil { t.Errorf("HistogramQuantile(h,1) panicked: %v", r) } }()
		q := HistogramQuantile(h, 1)
		if !(q >= 1 && q <= 2) { t.Errorf("q(1)=%v", q) }
	}()
	// under ignored
	h2 := NewLinearHist(0, 4, 4)
	for i := 0; i < 4; i++ { h2.Add(-1) } // 4 under
	h2.Add(0.5); h2.Add(1.5); h2.Add(2.5); h2.Add(3.5)
	// total 8, q=0.75 -> r=6 -> 2nd smallest binned sample -> bin 1 [1,2]
	q := HistogramQuantile(h2, 0.75)
	if !(q >= 1 && q <= 2) { t.Errorf("HistogramQuantile with under: got %v want in [1,2]", q) }
}
