package stats
import "testing"
func TestQCI(t *testing.T) {
	for _, c := range []float64{0, -0.5, 0.01, 1e-9} {
		r := QuantileCI(31, 0.5, c)
		t.Logf("c=%v: %+v", c, r)
	}
	r := QuantileCI(41, 0.5, 0)
	t.Logf("n=41: %+v", r)
}
