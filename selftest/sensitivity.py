#!/usr/bin/env python3
"""Thorough tier, second part: run the must-fail mutants recorded for one
property (selftest/mutants.tsv, 4th column starts with the property id) against
scratch copies of /repo's current tree and record in the evidence file how many
are killed by the named functions' obligations. A surviving mutant is a weakness
of the check, not a violation of the property on /repo: it is reported in the
evidence (coverage.sensitivity) and on stdout, never as a VIOLATION."""
import json, subprocess, sys, time
prop = sys.argv[1]
ev = f'/verif/evidence/{prop}.json'
rows = []
for line in open('/verif/selftest/mutants.tsv'):
    if line.startswith('#') or not line.strip():
        continue
    f = line.rstrip('\n').split('\t')
    if len(f) >= 4 and f[3].startswith(prop + ' '):
        rows.append(f)
res = []
t0 = time.time()
for file, expr, funcs, what in rows:
    p = subprocess.run(['/verif/selftest/mutate.sh', file, expr] + funcs.split(), capture_output=True, text=True)
    out = p.stdout.strip().splitlines()
    verdict = {0: 'killed', 1: 'SURVIVED'}.get(p.returncode, 'invalid')
    first = out[0][:120] if out else ''
    res.append({'mutation': what, 'file': file, 'sed': expr, 'verdict': verdict, 'first_failing_obligation': first.split()[1] if verdict == 'killed' and len(first.split()) > 1 else ''})
    print(f'mutant {verdict:9s} {what}')
try:
    e = json.load(open(ev))
    e['coverage']['sensitivity'] = {
        'rule': 'one-line mutations of the code under contract (selftest/mutants.tsv), each applied to a scratch copy of the current tree; killed = at least one obligation of the named functions fails',
        'mutants': len(res), 'killed': sum(r['verdict'] == 'killed' for r in res), 'results': res,
        'wall_s': round(time.time() - t0, 1)}
    e['wall_s'] = round(e.get('wall_s', 0) + time.time() - t0, 1)
    json.dump(e, open(ev, 'w'), indent=1)
except Exception as ex:
    print('sensitivity: evidence not updated:', ex)
