#!/bin/bash
# Engine soundness canaries: tiny functions with one contract clause that is
# FALSE ([bad]) and one that is true ([good]). gowp must refute every [bad]
# and prove every [good]. Runs on a scratch copy of /repo (package vec).
export GOFLAGS=-mod=mod GOPROXY=off GOSUMDB=off GOTOOLCHAIN=local
wt=$(mktemp -d /dev/shm/eng.XXXX); trap 'rm -rf "$wt"' EXIT
rsync -a --exclude .git /repo/ "$wt"/
cp /verif/selftest/engine/zz_t.go.txt "$wt"/vec/zz_t.go
cat /verif/selftest/engine/zz_contracts.txt >> "$wt"/vec/zz_contracts_verif.go
funcs=$(grep -o '^//@ func [A-Za-z0-9_]*' /verif/selftest/engine/zz_contracts.txt | awk '{print "vec."$3}')
out=$(${GOWP:-/verif/bin/gowp} func -repo "$wt" $funcs 2>&1)
rc=0
echo "$out" | grep "post:bad" | grep -v "^FAIL" && { echo "UNSOUND: a false clause was proved"; rc=1; }
echo "$out" | grep "post:good" | grep -v "^ok" && { echo "INCOMPLETE: a true clause was not proved"; rc=1; }
echo "$out" | grep "zzS#safe:rangekeys" | grep -v "^FAIL" && { echo "UNSOUND: insertion during a range over the map was not flagged"; rc=1; }
echo "$out" | grep "zzPH#assert:ph" | grep -q "^FAIL" || { echo "UNSOUND: pigeonhole applied without the key range"; rc=1; }
echo "$out" | grep "zzPH2#assert:ph" | grep -q "^ok" || { echo "INCOMPLETE: pigeonhole not applied with the key range proved"; rc=1; }
echo "$out" | grep "zzMP2#safe:panic" | grep -q "^FAIL" || { echo "UNSOUND: maypanic swallowed the panic of a helper executed in place"; rc=1; }
echo "$out" | grep "zzMP#safe:panic" && { echo "INCOMPLETE: maypanic did not allow the function's own panic"; rc=1; }
echo "$out" | grep -q "ENGINE-ERROR" && { echo "$out" | grep ENGINE-ERROR; rc=1; }
n=$(echo "$out" | grep -c "post:bad")
echo "engine canaries: $n false clauses refuted, rc=$rc"
exit $rc
