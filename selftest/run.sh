#!/bin/bash
# Must-fail corpus: every mutant listed in mutants.tsv must be killed by the
# named functions' obligations. Prints one line per mutant; exit 1 if any survives.
cd /verif
rc=0
while IFS=$'\t' read -r file expr funcs what; do
  case "$file" in \#*|"") continue;; esac
  out=$(selftest/mutate.sh "$file" "$expr" $funcs 2>&1); st=$?
  first=$(echo "$out" | head -1 | cut -c1-90)
  case $st in
    0) echo "killed    $what :: $first";;
    1) echo "SURVIVED  $what"; rc=1;;
    *) echo "INVALID   $what :: $first"; rc=1;;
  esac
done < selftest/mutants.tsv
exit $rc
