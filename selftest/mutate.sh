#!/bin/bash
# usage: mutate.sh <file-relative-to-repo> <sed-expression> <func-key>...
# Applies a one-line mutation to a scratch copy of /repo (under /dev/shm),
# checks that it still compiles, runs gowp on the named functions and prints
# the failing obligations. Exit 0 if at least one obligation fails (the
# mutant is killed), 1 if it survives, 2 if the mutant does not compile or
# the sed expression changed nothing.
export GOFLAGS=-mod=mod GOPROXY=off GOSUMDB=off GOTOOLCHAIN=local
file=$1; expr=$2; shift 2
wt=$(mktemp -d /dev/shm/mut.XXXX)
trap 'rm -rf "$wt"' EXIT
rsync -a --exclude .git /repo/ "$wt"/
before=$(md5sum "$wt/$file" | cut -d' ' -f1)
sed -i "$expr" "$wt/$file"
after=$(md5sum "$wt/$file" | cut -d' ' -f1)
[ "$before" = "$after" ] && { echo "mutation changed nothing"; exit 2; }
(cd "$wt" && go build ./... 2>&1 | head -5) | grep -q . && { echo "mutant does not compile"; exit 2; }
# obligations recorded as known findings fail on the unchanged tree too: not counted
known=$(grep '^finding:' /verif/KNOWN_FINDINGS | grep -o 'obligation=[^ ]*' | cut -d= -f2 | sort -u | tr '\n' '|' | sed 's/|$//')
out=$(${GOWP:-/verif/bin/gowp} func -repo "$wt" "$@" 2>&1 | grep -v "^ok" | grep "FAIL\|ENGINE-ERROR\|unsupported" | { if [ -n "$known" ]; then grep -v -E "$known"; else cat; fi; } | cut -c1-150)
if [ -n "$out" ]; then echo "$out" | head -8; echo "KILLED"; exit 0; fi
echo "SURVIVED"; exit 1
