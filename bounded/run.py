#!/usr/bin/env python3
"""Bounded stand-ins (labelled bounded, never counted as proved) for functions
that are ASSUMED contracts because they are outside the verifier's reach.
usage: run.py <property> <tier>. Runs the in-package test through an overlay
against /repo's current tree (nothing is written to /repo), records what was
covered in the evidence file under coverage.bounded, and on a failure prints a
VIOLATION line whose replay file holds the failing input as printed by the real
code."""
import json, os, re, subprocess, sys, time
prop, tier = sys.argv[1], (sys.argv[2] if len(sys.argv) > 2 else 'quick')
CFG = {
    'C02': {'pkg': './stats/', 'overlay': '/verif/bounded/ov_c02.json', 'run': 'TestBoundedUmemo',
            'env': {'quick': {'VERIF_BOUND_N': '7'}, 'thorough': {'VERIF_BOUND_N': '11'}},
            'what': 'makeUmemo (assumed contract acnt), UDist.CDF/PMF on the tied path, and pmw = count/C(N1+N2,N1): every tie vector with 2..4 ranks and sum <= N, every n1, every 2U, against direct enumeration of the per-rank allocations'},
}
if prop not in CFG:
    sys.exit(0)
c = CFG[prop]
env = dict(os.environ, GOFLAGS='-mod=mod', GOPROXY='off', GOSUMDB='off', GOTOOLCHAIN='local', **c['env'][tier])
t0 = time.time()
p = subprocess.run(['go', 'test', '-overlay', c['overlay'], '-vet=off', '-count=1', '-timeout', '900s', '-run', c['run'], '-v', c['pkg']],
                   cwd='/repo', env=env, capture_output=True, text=True)
out = p.stdout + p.stderr
ok = re.search(r'BOUNDED-OK (.*)', out)
fails = re.findall(r'BOUNDED-FAIL (.*)', out)
rec = {'label': 'bounded (stand-in for an assumed contract; not counted as proved)', 'what': c['what'], 'bound': c['env'][tier], 'wall_s': round(time.time() - t0, 1)}
rc = 0
if ok and not fails and p.returncode == 0:
    rec['result'] = 'held on every case within the bound'
    rec.update({k: int(v) for k, v in re.findall(r'(\w+)=(\d+)', ok.group(1))})
    print(f'bounded: {prop} {ok.group(1)}')
else:
    rc = 1
    os.makedirs(f'/verif/work/replay/{prop}', exist_ok=True)
    path = f'/verif/work/replay/{prop}/bounded_{c["run"]}.txt'
    with open(path, 'w') as f:
        f.write(f'property: {prop}\nbounded stand-in {c["run"]} failed on the real code (go test -overlay {c["overlay"]} -run {c["run"]} {c["pkg"]})\n')
        f.write('failing input(s) as reported by the real code:\n' + '\n'.join(fails or ['(no BOUNDED-FAIL line: build or test error)']) + '\n\n--- test output ---\n' + out[-4000:])
    rec['result'] = 'FAILED: ' + (fails[0] if fails else 'test error')
    print(f'VIOLATION property={prop} replay={path}')
try:
    ev = f'/verif/evidence/{prop}.json'
    e = json.load(open(ev))
    e['coverage']['bounded'] = rec
    if rc:
        e['violations'] = e.get('violations', 0) + 1
    e['wall_s'] = round(e.get('wall_s', 0) + rec['wall_s'], 1)
    json.dump(e, open(ev, 'w'), indent=1)
except Exception as ex:
    print('bounded: evidence not updated:', ex)
sys.exit(rc)
