package mathx

// Bounded stand-in (C08) for the numeric kernels that are ASSUMED contracts
// (betacf, gammaIncSeries, gammaIncCF: continued fractions and series whose
// accuracy no contract here can express). Labelled bounded, never counted as
// proved. On a grid of parameters (log-spaced in a, b over [0.05,300]; x near 0,
// 1, the mean and the switch-over points of the two evaluation branches)
// BetaInc, GammaInc and GammaIncComp are compared, to the property's 1e-9, with
// closed forms in big.Rat for integer parameters and with the independent
// cephes-derived implementation in gonum/mathext elsewhere; range, end points,
// reflection / complement identities and monotonicity along the grid are
// checked as well.

import (
	"fmt"
	"math"
	"math/big"
	"os"
	"strconv"
	"testing"

	"gonum.org/v1/gonum/mathext"
)

func boundedBetaIncExact(x *big.Rat, a, b int) float64 {
	// I_x(a,b) = sum_{j=a}^{a+b-1} C(a+b-1,j) x^j (1-x)^(a+b-1-j)
	n := a + b - 1
	one := big.NewRat(1, 1)
	omx := new(big.Rat).Sub(one, x)
	sum := new(big.Rat)
	for j := a; j <= n; j++ {
		t := new(big.Rat).SetInt(new(big.Int).Binomial(int64(n), int64(j)))
		for k := 0; k < j; k++ {
			t.Mul(t, x)
		}
		for k := 0; k < n-j; k++ {
			t.Mul(t, omx)
		}
		sum.Add(sum, t)
	}
	f, _ := sum.Float64()
	return f
}

func TestBoundedSpecial(t *testing.T) {
	dens := 1
	if v, err := strconv.Atoi(os.Getenv("VERIF_BOUND_N")); err == nil && v > 0 {
		dens = v
	}
	const tol = 1e-9
	nfail, cases := 0, 0
	fail := func(s string) {
		nfail++
		if nfail <= 5 {
			fmt.Println("BOUNDED-FAIL " + s)
		}
	}
	var params []float64
	steps := 12 * dens
	for i := 0; i <= steps; i++ {
		params = append(params, 0.05*math.Pow(300/0.05, float64(i)/float64(steps)))
	}
	params = append(params, 0.5, 1, 1.5, 2, 3, 10, 100)
	xsFor := func(a, b float64) []float64 {
		xs := []float64{0, 1e-12, 1e-6, 1e-3, 0.01, 0.05, 0.1, 0.2, 0.3, 0.4, 0.5, 0.6, 0.7, 0.8, 0.9, 0.95, 0.99, 0.999, 1 - 1e-6, 1 - 1e-12, 1}
		sw := (a + 1) / (a + b + 2)
		mean := a / (a + b)
		for _, c := range []float64{sw, mean} {
			for _, d := range []float64{-1e-3, -1e-9, 0, 1e-9, 1e-3} {
				if v := c + d; v > 0 && v < 1 {
					xs = append(xs, v)
				}
			}
		}
		return xs
	}
	for _, a := range params {
		for _, b := range params {
			xs := xsFor(a, b)
			for _, x := range xs {
				cases++
				got := BetaInc(x, a, b)
				want := mathext.RegIncBeta(a, b, x)
				if !(math.Abs(got-want) <= tol) {
					fail(fmt.Sprintf("BetaInc(%v,%v,%v) = %v, reference %v (diff %.3g)", x, a, b, got, want, got-want))
				}
				if !(got >= 0 && got <= 1) {
					fail(fmt.Sprintf("BetaInc(%v,%v,%v) = %v outside [0,1]", x, a, b, got))
				}
			}
			// reflection, at dyadic x (so that 1-x is exact)
			for _, x := range []float64{1.0 / (1 << 20), 1.0 / 1024, 1.0 / 16, 0.25, 0.5, 0.75, 15.0 / 16, 1 - 1.0/1024, 1 - 1.0/(1<<20)} {
				cases++
				if l, r := BetaInc(x, a, b), BetaInc(1-x, b, a); !(math.Abs(l+r-1) <= 2*tol) {
					fail(fmt.Sprintf("BetaInc(%v,%v,%v) + BetaInc(1-x,b,a) = %v", x, a, b, l+r))
				}
			}
			if BetaInc(0, a, b) != 0 || BetaInc(1, a, b) != 1 {
				fail(fmt.Sprintf("BetaInc end points for a=%v b=%v: %v %v", a, b, BetaInc(0, a, b), BetaInc(1, a, b)))
			}
		}
	}
	// monotone in x on an ascending grid
	for _, a := range params {
		for _, b := range params {
			prev := 0.0
			for i := 0; i <= 40; i++ {
				x := float64(i) / 40
				v := BetaInc(x, a, b)
				if v < prev-tol {
					fail(fmt.Sprintf("BetaInc(.,%v,%v) decreases at x=%v: %v after %v", a, b, x, v, prev))
				}
				prev = v
			}
		}
	}
	// integer parameters: closed form in big.Rat
	for a := 1; a <= 12; a++ {
		for b := 1; b <= 12; b++ {
			for k := 0; k <= 16; k++ {
				cases++
				x := big.NewRat(int64(k), 16)
				xf, _ := x.Float64()
				got, want := BetaInc(xf, float64(a), float64(b)), boundedBetaIncExact(x, a, b)
				if !(math.Abs(got-want) <= tol) {
					fail(fmt.Sprintf("BetaInc(%v,%d,%d) = %v, exact %v", xf, a, b, got, want))
				}
			}
		}
	}
	for _, bad := range []float64{-0.1, 1.1, math.Inf(1), math.Inf(-1)} {
		if !math.IsNaN(BetaInc(bad, 2, 3)) {
			fail(fmt.Sprintf("BetaInc(%v,2,3) is not NaN", bad))
		}
	}
	// incomplete gamma
	for _, a := range params {
		xs := []float64{0, 1e-12, 1e-6, 1e-3, 0.01, 0.1, 0.5, 1, 2, 5, 10, 30, 100, 300, 1000, 3000}
		for _, d := range []float64{-1e-3, -1e-9, 0, 1e-9, 1e-3} {
			xs = append(xs, a+1+d, a+d)
			if a+d > 0 {
				xs = append(xs, (a+d)/2, 2*(a+d))
			}
		}
		for _, x := range xs {
			if x < 0 {
				continue
			}
			cases++
			p, q := GammaInc(a, x), GammaIncComp(a, x)
			wp, wq := mathext.GammaIncReg(a, x), mathext.GammaIncRegComp(a, x)
			if !(math.Abs(p-wp) <= tol) || !(math.Abs(q-wq) <= tol) {
				fail(fmt.Sprintf("GammaInc(%v,%v) = %v (reference %v), GammaIncComp = %v (reference %v)", a, x, p, wp, q, wq))
			}
			if !(math.Abs(p+q-1) <= 2*tol) || !(p >= 0 && p <= 1 && q >= 0 && q <= 1) {
				fail(fmt.Sprintf("GammaInc(%v,%v) + GammaIncComp = %v + %v", a, x, p, q))
			}
		}
		prev := 0.0
		for i := 0; i <= 60; i++ {
			x := 3 * a * float64(i) / 60
			v := GammaInc(a, x)
			if v < prev-tol {
				fail(fmt.Sprintf("GammaInc(%v,.) decreases at x=%v: %v after %v", a, x, v, prev))
			}
			prev = v
		}
	}
	// integer shape: P(a,x) = 1 - exp(-x) sum_{k<a} x^k/k!
	for a := 1; a <= 15; a++ {
		for _, x := range []float64{0.25, 0.5, 1, 2, 4, 8, 16, 32} {
			cases++
			sum, term := 0.0, 1.0
			for k := 0; k < a; k++ {
				if k > 0 {
					term *= x / float64(k)
				}
				sum += term
			}
			want := math.Exp(-x) * sum
			if got := GammaIncComp(float64(a), x); !(math.Abs(got-want) <= tol) {
				fail(fmt.Sprintf("GammaIncComp(%d,%v) = %v, closed form %v", a, x, got, want))
			}
		}
	}
	for _, bad := range [][2]float64{{0, 1}, {-1, 1}, {1, -1}, {math.NaN(), 1}, {1, math.NaN()}} {
		if !math.IsNaN(GammaInc(bad[0], bad[1])) || !math.IsNaN(GammaIncComp(bad[0], bad[1])) {
			fail(fmt.Sprintf("GammaInc/GammaIncComp(%v,%v) is not NaN", bad[0], bad[1]))
		}
	}
	// Choose / Lchoose against big.Int binomials: exact for n <= 20, 1e-10
	// relative beyond, symmetric, 0 out of range
	maxChoose := 200 * dens
	if maxChoose > 1000 {
		maxChoose = 1000
	}
	for n := 0; n <= maxChoose; n++ {
		for k := -1; k <= n+1; k++ {
			cases++
			got := Choose(n, k)
			if k < 0 || k > n {
				if got != 0 || !math.IsNaN(Lchoose(n, k)) {
					fail(fmt.Sprintf("Choose(%d,%d) = %v, Lchoose = %v out of range", n, k, got, Lchoose(n, k)))
				}
				continue
			}
			want, _ := new(big.Float).SetInt(new(big.Int).Binomial(int64(n), int64(k))).Float64()
			if n <= 20 && got != want {
				fail(fmt.Sprintf("Choose(%d,%d) = %v, exact %v", n, k, got, want))
			}
			if !(math.Abs(got-want) <= 1e-10*want) {
				fail(fmt.Sprintf("Choose(%d,%d) = %v, exact %v (relative error %.3g)", n, k, got, want, (got-want)/want))
			}
			if o := Choose(n, n-k); !(math.Abs(got-o) <= 2e-10*want) || (n <= 20 && got != o) {
				fail(fmt.Sprintf("Choose(%d,%d) = %v but Choose(%d,%d) = %v", n, k, got, n, n-k, Choose(n, n-k)))
			}
			if l := Lchoose(n, k); !(math.Abs(l-math.Log(want)) <= 1e-9*math.Max(1, math.Log(want))) {
				fail(fmt.Sprintf("Lchoose(%d,%d) = %v, log of exact %v", n, k, l, math.Log(want)))
			}
		}
	}
	if nfail > 0 {
		t.Fatalf("%d failures", nfail)
	}
	fmt.Printf("BOUNDED-OK cases=%d params=%d maxchoose=%d\n", cases, len(params), maxChoose)
}
