package graphalg

// Bounded stand-in (C19) for the clause the contracts do not reach: that the
// fixpoint IDom arrives at IS the dominator tree in the graph-theoretic sense,
// and that DomFrontier is the dominance frontier by definition (the contracts
// prove it relative to the idom array). Labelled bounded. Every digraph with
// self-loops on up to VERIF_BOUND_N nodes, every root, plus a parallel-edge
// variant and pseudo-random larger graphs: dominance is decided by deleting
// each node and re-running reachability.

import (
	"fmt"
	"os"
	"sort"
	"strconv"
	"testing"

	"github.com/aclements/go-moremath/graph"
)

func c19reach(g graph.IntGraph, root, skip int) []bool {
	seen := make([]bool, len(g))
	if root == skip {
		return seen
	}
	stack := []int{root}
	seen[root] = true
	for len(stack) > 0 {
		n := stack[len(stack)-1]
		stack = stack[:len(stack)-1]
		for _, o := range g[n] {
			if o != skip && !seen[o] {
				seen[o] = true
				stack = append(stack, o)
			}
		}
	}
	return seen
}

func c19check(g graph.IntGraph, root int, fail func(string)) {
	n := len(g)
	reach := c19reach(g, root, -1)
	// dom[d][v]: d dominates v (v reachable): v unreachable once d is deleted, or d == v
	dom := make([][]bool, n)
	for d := 0; d < n; d++ {
		dom[d] = make([]bool, n)
		r := c19reach(g, root, d)
		for v := 0; v < n; v++ {
			dom[d][v] = reach[v] && (d == v || !r[v])
		}
	}
	bg := graph.MakeBiGraph(g)
	idom := IDom(bg, root)
	if len(idom) != n {
		fail(fmt.Sprintf("IDom(%v,%d) has length %d", g, root, len(idom)))
		return
	}
	for v := 0; v < n; v++ {
		want := -1
		if reach[v] && v != root {
			// the strict dominator that every other strict dominator dominates
			for d := 0; d < n; d++ {
				if d == v || !dom[d][v] {
					continue
				}
				closest := true
				for e := 0; e < n; e++ {
					if e != v && dom[e][v] && !dom[e][d] {
						closest = false
					}
				}
				if closest {
					want = d
				}
			}
		}
		if idom[v] != want {
			fail(fmt.Sprintf("IDom(%v,%d)[%d] = %d, want %d (full result %v)", g, root, v, idom[v], want, idom))
			return
		}
	}
	tree := Dom(idom)
	for v := 0; v < n; v++ {
		var kids []int
		for c := 0; c < n; c++ {
			if idom[c] == v {
				kids = append(kids, c)
			}
		}
		got := append([]int(nil), tree.Out(v)...)
		sort.Ints(got)
		if fmt.Sprint(got) != fmt.Sprint(kids) && !(len(got) == 0 && len(kids) == 0) {
			fail(fmt.Sprintf("Dom(%v).Out(%d) = %v, want %v", idom, v, tree.Out(v), kids))
		}
	}
	df := DomFrontier(bg, root, idom)
	nin := 0
	for v := 0; v < n; v++ {
		for _, o := range g[v] {
			if o == root {
				nin++
			}
		}
	}
	for x := 0; x < n; x++ {
		want := map[int]bool{}
		if reach[x] {
			for y := 0; y < n; y++ {
				if !reach[y] {
					continue
				}
				for p := 0; p < n; p++ {
					if !reach[p] {
						continue
					}
					isPred := false
					for _, o := range g[p] {
						if o == y {
							isPred = true
						}
					}
					if isPred && dom[x][p] && !(dom[x][y] && x != y) {
						want[y] = true
					}
				}
			}
		}
		got := map[int]bool{}
		for _, y := range df[x] {
			if got[y] {
				fail(fmt.Sprintf("DomFrontier(%v,%d)[%d] = %v lists %d twice", g, root, x, df[x], y))
			}
			got[y] = true
		}
		for y := 0; y < n; y++ {
			if y == root && nin == 1 {
				continue // membership of the root is claimed only for no or at least two incoming edges
			}
			if got[y] != want[y] {
				fail(fmt.Sprintf("DomFrontier(%v,%d)[%d] = %v: membership of %d is %v, definition says %v", g, root, x, df[x], y, got[y], want[y]))
				return
			}
		}
	}
}

func TestBoundedDominators(t *testing.T) {
	maxN := 4
	if v, err := strconv.Atoi(os.Getenv("VERIF_BOUND_N")); err == nil && v > 0 {
		maxN = v
	}
	extra := 3000
	if v, err := strconv.Atoi(os.Getenv("VERIF_BOUND_EXTRA")); err == nil && v >= 0 {
		extra = v
	}
	nfail, cases := 0, 0
	fail := func(s string) {
		nfail++
		if nfail <= 5 {
			fmt.Println("BOUNDED-FAIL " + s)
		}
	}
	for n := 1; n <= maxN; n++ {
		for mask := 0; mask < 1<<uint(n*n); mask++ {
			g := make(graph.IntGraph, n)
			multi := make(graph.IntGraph, n)
			for i := 0; i < n; i++ {
				g[i] = []int{}
				for j := n - 1; j >= 0; j-- {
					if mask>>(uint(i*n+j))&1 == 1 {
						g[i] = append(g[i], j)
						multi[i] = append(multi[i], j)
						if (i+j)%2 == 0 {
							multi[i] = append(multi[i], j)
						}
					}
				}
			}
			for root := 0; root < n; root++ {
				cases++
				c19check(g, root, fail)
				if n <= 3 || mask%5 == 0 {
					c19check(multi, root, fail)
				}
			}
		}
	}
	seed := verifSeedC19(1181783497276652981)
	next := func(m int) int {
		seed ^= seed << 13
		seed ^= seed >> 7
		seed ^= seed << 17
		return int(seed>>11) % m
	}
	for k := 0; k < extra; k++ {
		n := 5 + next(36)
		g := make(graph.IntGraph, n)
		for i := range g {
			g[i] = []int{}
		}
		edges := n - 1 + next(1+n*(1+next(4)))
		for e := 0; e < edges; e++ {
			a := next(n)
			g[a] = append(g[a], next(n))
		}
		cases++
		c19check(g, next(n), fail)
	}
	if nfail > 0 {
		t.Fatalf("%d failures", nfail)
	}
	fmt.Printf("BOUNDED-OK cases=%d maxnodes=%d extra=%d\n", cases, maxN, extra)
}

// verifSeedC19 mixes VERIF_SEED (if set) into a generator's initial state, so that
// different seeds explore different pseudo-random inputs; 0 keeps the default.
func verifSeedC19(s uint64) uint64 {
	if v, err := strconv.ParseUint(os.Getenv("VERIF_SEED"), 10, 64); err == nil && v != 0 {
		s ^= v * 0x9E3779B97F4A7C15
		if s == 0 {
			s = 0x9E3779B97F4A7C15
		}
	}
	return s
}
