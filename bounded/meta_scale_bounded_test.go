package scale

// Bounded stand-in (C16, labelled bounded): the float64 round trip
// Unmap(Map(x)) = x to 1e-9 relative (the contracts prove it in exact real
// arithmetic), monotonicity on a grid, end points, and QQ as mutual inverses.

import (
	"fmt"
	"math"
	"os"
	"strconv"
	"testing"
)

func TestBoundedScaleLaws(t *testing.T) {
	dens := 1
	if v, err := strconv.Atoi(os.Getenv("VERIF_BOUND_N")); err == nil && v > 0 {
		dens = v
	}
	nfail, cases := 0, 0
	fail := func(s string) {
		nfail++
		if nfail <= 5 {
			fmt.Println("BOUNDED-FAIL " + s)
		}
	}
	close := func(a, b float64, scale float64) bool { return math.Abs(a-b) <= 1e-9*math.Max(scale, math.Max(math.Abs(a), math.Abs(b))) }
	mags := []float64{1e-12, 1e-6, 0.03, 1, 7.5, 1e3, 1e6, 1e12}
	var scales []Quantitative
	var doms [][2]float64
	for _, a := range mags {
		for _, b := range mags {
			if a == b {
				continue
			}
			for _, sg := range []float64{1, -1} {
				lin := Linear{Min: sg * a, Max: b}
				scales = append(scales, &lin)
				doms = append(doms, [2]float64{lin.Min, lin.Max})
				lg, err := NewLog(sg*a, sg*b, 10)
				if err != nil {
					fail(fmt.Sprintf("NewLog(%g,%g,10): %v", sg*a, sg*b, err))
					continue
				}
				scales = append(scales, &lg)
				doms = append(doms, [2]float64{lg.Min, lg.Max})
			}
		}
	}
	steps := 20 * dens
	for si, s := range scales {
		lo, hi := doms[si][0], doms[si][1]
		_, isLog := s.(*Log)
		if !close(s.Map(lo), 0, 1) || !close(s.Map(hi), 1, 1) {
			fail(fmt.Sprintf("%T%+v: Map(Min) = %g, Map(Max) = %g", s, s, s.Map(lo), s.Map(hi)))
		}
		prev := math.Inf(-1)
		for i := 0; i <= steps; i++ {
			f := float64(i) / float64(steps)
			var x float64
			if isLog {
				x = math.Copysign(math.Exp(math.Log(math.Abs(lo))+f*(math.Log(math.Abs(hi))-math.Log(math.Abs(lo)))), lo)
			} else {
				x = lo + f*(hi-lo)
			}
			cases++
			y := s.Map(x)
			back := s.Unmap(y)
			// for a linear scale the error of the round trip is relative to the width of the domain
			scale := math.Abs(x)
			if !isLog {
				scale = math.Max(math.Abs(lo), math.Abs(hi))
			}
			if !close(back, x, scale) {
				fail(fmt.Sprintf("%T%+v: Unmap(Map(%g)) = %g", s, s, x, back))
			}
			if y < prev-1e-12 {
				fail(fmt.Sprintf("%T%+v: Map decreases at %g: %g after %g", s, s, x, y, prev))
			}
			prev = y
			if !close(s.Map(s.Unmap(f)), f, 1) {
				fail(fmt.Sprintf("%T%+v: Map(Unmap(%g)) = %g", s, s, f, s.Map(s.Unmap(f))))
			}
		}
	}
	for i := 0; i+1 < len(scales); i += 3 {
		q := QQ{Src: scales[i], Dest: scales[i+1]}
		lo, hi := doms[i][0], doms[i][1]
		for k := 0; k <= 10; k++ {
			f := float64(k) / 10
			var x float64
			if _, isLog := scales[i].(*Log); isLog {
				x = math.Copysign(math.Exp(math.Log(math.Abs(lo))+f*(math.Log(math.Abs(hi))-math.Log(math.Abs(lo)))), lo)
			} else {
				x = lo + f*(hi-lo)
			}
			cases++
			y := q.Map(x)
			if want := scales[i+1].Unmap(scales[i].Map(x)); y != want && !(math.IsNaN(y) && math.IsNaN(want)) {
				fail(fmt.Sprintf("QQ.Map(%g) = %g, composition gives %g", x, y, want))
			}
			scale := math.Abs(x)
			if _, isLog := scales[i].(*Log); !isLog {
				scale = math.Max(math.Abs(lo), math.Abs(hi))
			}
			if back := q.Unmap(y); !close(back, x, scale) {
				fail(fmt.Sprintf("QQ{%+v -> %+v}: Unmap(Map(%g)) = %g", scales[i], scales[i+1], x, back))
			}
		}
	}
	if nfail > 0 {
		t.Fatalf("%d failures", nfail)
	}
	fmt.Printf("BOUNDED-OK cases=%d scales=%d\n", cases, len(scales))
}
