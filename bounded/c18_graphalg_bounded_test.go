package graphalg

// Bounded stand-in (C18) for the functions of graphalg that are outside the
// verifier's reach: SCC (Tarjan with nested closures and an edge stack),
// Euler.Visit (a trace of callbacks) and SimplifyMulti (range over a map).
// Labelled bounded, never counted as proved. Every digraph (self-loops
// allowed) on up to VERIF_BOUND_N nodes, every root, plus a family with
// parallel edges, is compared with definitions evaluated directly:
// mutual reachability by transitive closure, depth-first order by a
// reference recursion, edge multiplicities by counting.

import (
	"fmt"
	"os"
	"sort"
	"strconv"
	"testing"

	"github.com/aclements/go-moremath/graph"
)

type wgraph struct {
	out [][]int
	w   [][]float64
}

func (g wgraph) NumNodes() int                { return len(g.out) }
func (g wgraph) Out(i int) []int              { return g.out[i] }
func (g wgraph) OutWeight(i, e int) float64   { return g.w[i][e] }

func boundedReach(g graph.IntGraph) [][]bool {
	n := len(g)
	r := make([][]bool, n)
	for i := range r {
		r[i] = make([]bool, n)
		r[i][i] = true
		for _, o := range g[i] {
			r[i][o] = true
		}
	}
	for k := 0; k < n; k++ {
		for i := 0; i < n; i++ {
			for j := 0; j < n; j++ {
				if r[i][k] && r[k][j] {
					r[i][j] = true
				}
			}
		}
	}
	return r
}

func boundedCheckSCC(g graph.IntGraph, fail func(string)) {
	n := len(g)
	reach := boundedReach(g)
	for _, flags := range []SCCFlags{0, SCCSubnodeComponent, SCCEdges, SCCSubnodeComponent | SCCEdges} {
		s := SCC(g, flags)
		comp := make([]int, n)
		for i := range comp {
			comp[i] = -1
		}
		for c := 0; c < s.NumNodes(); c++ {
			sub := s.Subnodes(c)
			if len(sub) == 0 {
				fail(fmt.Sprintf("SCC(%v,%d): empty component %d", g, flags, c))
			}
			for _, v := range sub {
				if v < 0 || v >= n || comp[v] != -1 {
					fail(fmt.Sprintf("SCC(%v,%d): node %d listed twice or out of range", g, flags, v))
					return
				}
				comp[v] = c
			}
		}
		for v := 0; v < n; v++ {
			if comp[v] == -1 {
				fail(fmt.Sprintf("SCC(%v,%d): node %d in no component", g, flags, v))
				return
			}
		}
		for u := 0; u < n; u++ {
			for v := 0; v < n; v++ {
				if (comp[u] == comp[v]) != (reach[u][v] && reach[v][u]) {
					fail(fmt.Sprintf("SCC(%v,%d): nodes %d,%d: same component %v, mutually reachable %v", g, flags, u, v, comp[u] == comp[v], reach[u][v] && reach[v][u]))
				}
			}
			for _, v := range g[u] {
				if comp[u] != comp[v] && comp[u] < comp[v] {
					fail(fmt.Sprintf("SCC(%v,%d): edge %d->%d goes from component %d to %d (not reverse topological)", g, flags, u, v, comp[u], comp[v]))
				}
			}
		}
		if flags&(SCCSubnodeComponent|SCCEdges) != 0 {
			for v := 0; v < n; v++ {
				if s.SubnodeComponent(v) != comp[v] {
					fail(fmt.Sprintf("SCC(%v,%d): SubnodeComponent(%d)=%d, listed in %d", g, flags, v, s.SubnodeComponent(v), comp[v]))
				}
			}
		}
		if flags&SCCEdges != 0 {
			for c := 0; c < s.NumNodes(); c++ {
				want := map[int]bool{}
				for _, u := range s.Subnodes(c) {
					for _, v := range g[u] {
						if comp[v] != c {
							want[comp[v]] = true
						}
					}
				}
				var ws []int
				for k := range want {
					ws = append(ws, k)
				}
				sort.Ints(ws)
				got := append([]int(nil), s.Out(c)...)
				sort.Ints(got)
				if fmt.Sprint(got) != fmt.Sprint(ws) {
					fail(fmt.Sprintf("SCC(%v,%d): Out(%d)=%v, want the components %v once each", g, flags, c, s.Out(c), ws))
				}
			}
		} else if s.NumNodes() > 0 && s.Out(0) != nil {
			fail(fmt.Sprintf("SCC(%v,%d): Out without SCCEdges is not nil", g, flags))
		}
	}
}

func boundedCheckEuler(g graph.IntGraph, root int, fail func(string)) {
	// reference: recursive depth-first tour in adjacency order
	var want []int // +n+1 enter, -(n+1) exit
	seen := make([]bool, len(g))
	var ref func(n int)
	ref = func(n int) {
		want = append(want, n+1)
		seen[n] = true
		for _, o := range g[n] {
			if !seen[o] {
				ref(o)
			}
		}
		want = append(want, -(n + 1))
	}
	ref(root)
	var got []int
	Euler{Enter: func(n int) { got = append(got, n+1) }, Exit: func(n int) { got = append(got, -(n + 1)) }}.Visit(g, root)
	if fmt.Sprint(got) != fmt.Sprint(want) {
		fail(fmt.Sprintf("Euler.Visit(%v,%d): calls %v, want %v", g, root, got, want))
	}
	var enters, exits []int
	Euler{Enter: func(n int) { enters = append(enters, n) }}.Visit(g, root)
	Euler{Exit: func(n int) { exits = append(exits, n) }}.Visit(g, root)
	Euler{}.Visit(g, root)
	pre, post := PreOrder(g, root), PostOrder(g, root)
	if fmt.Sprint(enters) != fmt.Sprint(pre) || fmt.Sprint(exits) != fmt.Sprint(post) {
		fail(fmt.Sprintf("Euler.Visit(%v,%d): enters %v exits %v, PreOrder %v PostOrder %v", g, root, enters, exits, pre, post))
	}
}

func boundedCheckSimplify(g graph.Graph, weight func(n, e int) float64, fail func(string)) {
	s := SimplifyMulti(g)
	if s.NumNodes() != g.NumNodes() {
		fail(fmt.Sprintf("SimplifyMulti: %d nodes, want %d", s.NumNodes(), g.NumNodes()))
		return
	}
	for n := 0; n < g.NumNodes(); n++ {
		var order []int
		sum := map[int]float64{}
		for e, o := range g.Out(n) {
			if _, ok := sum[o]; !ok {
				order = append(order, o)
			}
			sum[o] += weight(n, e)
		}
		got := append([]int(nil), s.Out(n)...)
		sort.Ints(got)
		sort.Ints(order)
		if fmt.Sprint(got) != fmt.Sprint(order) && !(len(order) == 0 && len(got) == 0) {
			fail(fmt.Sprintf("SimplifyMulti(%v): Out(%d)=%v, want each of %v once", g, n, s.Out(n), order))
			continue
		}
		for i, o := range s.Out(n) {
			if s.OutWeight(n, i) != sum[o] {
				fail(fmt.Sprintf("SimplifyMulti(%v): weight of %d->%d is %v, want %v", g, n, o, s.OutWeight(n, i), sum[o]))
			}
		}
	}
}

func TestBoundedGraphalg(t *testing.T) {
	maxN := 3
	if v, err := strconv.Atoi(os.Getenv("VERIF_BOUND_N")); err == nil && v > 0 {
		maxN = v
	}
	nfail, graphs, cases := 0, 0, 0
	fail := func(s string) {
		nfail++
		if nfail <= 5 {
			fmt.Println("BOUNDED-FAIL " + s)
		}
	}
	for n := 0; n <= maxN; n++ {
		for mask := 0; mask < 1<<uint(n*n); mask++ {
			g := make(graph.IntGraph, n)
			for i := 0; i < n; i++ {
				g[i] = []int{}
				for j := 0; j < n; j++ {
					if mask>>(uint(i*n+j))&1 == 1 {
						g[i] = append(g[i], j)
					}
				}
			}
			graphs++
			boundedCheckSCC(g, fail)
			for root := 0; root < n; root++ {
				boundedCheckEuler(g, root, fail)
				cases++
			}
			// the same graph with descending adjacency lists and with every
			// edge doubled / tripled by position (parallel edges)
			if n <= 3 || mask%7 == 0 {
				rev := make(graph.IntGraph, n)
				multi := make(graph.IntGraph, n)
				wg := wgraph{out: make([][]int, n), w: make([][]float64, n)}
				for i := range g {
					for k := len(g[i]) - 1; k >= 0; k-- {
						rev[i] = append(rev[i], g[i][k])
					}
					for k, o := range g[i] {
						for r := 0; r <= (k+i)%3; r++ {
							multi[i] = append(multi[i], o)
						}
					}
					// interleave: o0 o1 o0 ...
					for k, o := range g[i] {
						wg.out[i] = append(wg.out[i], o)
						wg.w[i] = append(wg.w[i], float64(k+1)/4)
					}
					for k, o := range g[i] {
						if (k+mask)%2 == 0 {
							wg.out[i] = append(wg.out[i], o)
							wg.w[i] = append(wg.w[i], float64(k+2))
						}
					}
				}
				boundedCheckSCC(rev, fail)
				boundedCheckSCC(multi, fail)
				for root := 0; root < n; root++ {
					boundedCheckEuler(rev, root, fail)
					boundedCheckEuler(multi, root, fail)
				}
				boundedCheckSimplify(g, func(n, e int) float64 { return 1 }, fail)
				boundedCheckSimplify(multi, func(n, e int) float64 { return 1 }, fail)
				boundedCheckSimplify(wg, func(n, e int) float64 { return wg.w[n][e] }, fail)
				cases += 3
			}
		}
	}
	// a deterministic pseudo-random family of larger graphs (5..9 nodes,
	// densities from sparse to dense, parallel edges possible)
	extra := 2000
	if v, err := strconv.Atoi(os.Getenv("VERIF_BOUND_EXTRA")); err == nil && v >= 0 {
		extra = v
	}
	seed := verifSeedC18(88172645463325252)
	next := func(m int) int {
		seed ^= seed << 13
		seed ^= seed >> 7
		seed ^= seed << 17
		return int(seed>>11) % m
	}
	for k := 0; k < extra; k++ {
		n := 5 + next(5)
		dens := 1 + next(3*n)
		g := make(graph.IntGraph, n)
		for i := range g {
			g[i] = []int{}
		}
		for e := 0; e < dens; e++ {
			a := next(n)
			g[a] = append(g[a], next(n))
		}
		graphs++
		boundedCheckSCC(g, fail)
		boundedCheckEuler(g, next(n), fail)
		boundedCheckSimplify(g, func(n, e int) float64 { return 1 }, fail)
		cases += 2
	}
	if nfail > 0 {
		t.Fatalf("%d failures", nfail)
	}
	fmt.Printf("BOUNDED-OK graphs=%d cases=%d maxnodes=%d extra=%d\n", graphs, cases, maxN, extra)
}

// verifSeedC18 mixes VERIF_SEED (if set) into a generator's initial state, so that
// different seeds explore different pseudo-random inputs; 0 keeps the default.
func verifSeedC18(s uint64) uint64 {
	if v, err := strconv.ParseUint(os.Getenv("VERIF_SEED"), 10, 64); err == nil && v != 0 {
		s ^= v * 0x9E3779B97F4A7C15
		if s == 0 {
			s = 0x9E3779B97F4A7C15
		}
	}
	return s
}
