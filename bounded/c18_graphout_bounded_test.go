package graphout

// Bounded stand-in (C18) for the Dot writer (strings are outside the
// verifier's model). Labelled bounded, never counted as proved. DotString:
// every string of up to VERIF_BOUND_N characters over an alphabet holding all
// the characters Dot treats specially must come back when the quoted form is
// unescaped, and the quoted form must contain no unescaped quote. Sprint:
// for a family of small graphs, every node is defined exactly once and every
// edge is written exactly once, with the labels and attributes in quoted form.

import (
	"fmt"
	"os"
	"strconv"
	"strings"
	"testing"

	"github.com/aclements/go-moremath/graph"
)

func boundedUnquote(q string) (string, bool) {
	if len(q) < 2 || q[0] != '"' || q[len(q)-1] != '"' {
		return "", false
	}
	var out []byte
	body := q[1 : len(q)-1]
	for i := 0; i < len(body); i++ {
		switch body[i] {
		case '"':
			return "", false // unescaped quote inside
		case '\\':
			i++
			if i >= len(body) {
				return "", false
			}
			if body[i] == 'n' {
				out = append(out, '\n')
			} else {
				out = append(out, body[i])
			}
		default:
			out = append(out, body[i])
		}
	}
	return string(out), true
}

func TestBoundedDot(t *testing.T) {
	maxLen := 4
	if v, err := strconv.Atoi(os.Getenv("VERIF_BOUND_N")); err == nil && v > 0 {
		maxLen = v
	}
	nfail, nstr, ngraph := 0, 0, 0
	fail := func(s string) {
		nfail++
		if nfail <= 5 {
			fmt.Println("BOUNDED-FAIL " + s)
		}
	}
	alphabet := []byte{'a', 'n', ' ', '"', '\\', '\n', '{', '}', '<', '>', '|'}
	var gen func(prefix []byte, left int)
	gen = func(prefix []byte, left int) {
		s := string(prefix)
		nstr++
		q := DotString(s)
		if back, ok := boundedUnquote(q); !ok || back != s {
			fail(fmt.Sprintf("DotString(%q) = %s does not unescape to the input (got %q, well-formed %v)", s, q, back, ok))
		}
		if strings.Contains(q, "\n") {
			fail(fmt.Sprintf("DotString(%q) = %q contains a raw newline", s, q))
		}
		if left == 0 {
			return
		}
		for _, c := range alphabet {
			gen(append(prefix, c), left-1)
		}
	}
	gen(nil, maxLen)

	labels := []string{"plain", "two\nlines", `say "hi"`, `back\slash`, "{rec|ord}", "<p>"}
	graphs := []graph.IntGraph{{}, {{}}, {{0}}, {{1}, {0}}, {{1, 1, 2}, {}, {0, 2}}, {{2, 1}, {2}, {}, {0}}}
	for _, g := range graphs {
		for variant := 0; variant < 3; variant++ {
			ngraph++
			d := Dot{Name: labels[variant]}
			if variant >= 1 {
				d.Label = func(n int) string { return labels[(n+variant)%len(labels)] }
			}
			if variant == 2 {
				d.EdgeAttrs = func(n, e int) []DotAttr {
					return []DotAttr{{"label", labels[(n+e)%len(labels)]}, {"weight", n + e}}
				}
				d.NodeAttrs = func(n int) []DotAttr { return []DotAttr{{"shape", DotLiteral("box")}} }
			}
			out := d.Sprint(g)
			lines := strings.Split(strings.TrimSuffix(out, "\n"), "\n")
			if len(lines) < 2 || lines[0] != "digraph "+DotString(d.Name)+" {" || lines[len(lines)-1] != "}" {
				fail(fmt.Sprintf("Sprint(%v) variant %d: bad frame: %q", g, variant, out))
				continue
			}
			nodeDefs := map[int]int{}
			edgeCount := map[[2]int]int{}
			for _, ln := range lines[1 : len(lines)-1] {
				var a, b int
				if n, _ := fmt.Sscanf(ln, "n%d -> n%d", &a, &b); n == 2 {
					edgeCount[[2]int{a, b}]++
					continue
				}
				if n, _ := fmt.Sscanf(ln, "n%d", &a); n == 1 {
					nodeDefs[a]++
					lab := fmt.Sprintf("%d", a)
					if d.Label != nil {
						lab = d.Label(a)
					}
					if !strings.Contains(ln, "label="+DotString(lab)) {
						fail(fmt.Sprintf("Sprint(%v) variant %d: node line %q lacks label=%s", g, variant, ln, DotString(lab)))
					}
					continue
				}
				fail(fmt.Sprintf("Sprint(%v) variant %d: unexpected line %q", g, variant, ln))
			}
			for n := range g {
				if nodeDefs[n] != 1 {
					fail(fmt.Sprintf("Sprint(%v) variant %d: node %d defined %d times", g, variant, n, nodeDefs[n]))
				}
			}
			want := map[[2]int]int{}
			for n := range g {
				for _, o := range g[n] {
					want[[2]int{n, o}]++
				}
			}
			if fmt.Sprint(want) != fmt.Sprint(edgeCount) || len(nodeDefs) != len(g) {
				fail(fmt.Sprintf("Sprint(%v) variant %d: edges written %v, want %v", g, variant, edgeCount, want))
			}
		}
	}
	if nfail > 0 {
		t.Fatalf("%d failures", nfail)
	}
	fmt.Printf("BOUNDED-OK strings=%d graphs=%d maxlen=%d\n", nstr, ngraph, maxLen)
}
