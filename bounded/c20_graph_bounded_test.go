package graphalg

// Bounded stand-in (C20), schedule clause: 16 goroutines call the graph
// algorithms on the same shared graphs under the race detector; results equal
// the sequential ones, the adjacency lists are unchanged. Labelled bounded.

import (
	"fmt"
	"os"
	"reflect"
	"strconv"
	"sync"
	"testing"

	"github.com/aclements/go-moremath/graph"
)

func TestBoundedConcurrentGraph(t *testing.T) {
	workers := 16
	if v, err := strconv.Atoi(os.Getenv("VERIF_BOUND_N")); err == nil && v > 0 {
		workers = v
	}
	mk := func(adj ...[]int) graph.IntGraph {
		g := make(graph.IntGraph, len(adj))
		for i, a := range adj {
			g[i] = append(make([]int, 0, 16), a...) // spare capacity behind every list
		}
		return g
	}
	g1 := mk([]int{2, 1, 1}, []int{3, 0}, []int{3, 2}, []int{1, 4}, []int{}, []int{0})
	g2 := mk([]int{1, 1, 2}, []int{0, 3}, []int{2, 3}, []int{4, 1}, []int{}, []int{0})
	copyG := func(g graph.IntGraph) [][]int {
		c := make([][]int, len(g))
		for i := range g {
			c[i] = append([]int(nil), g[i]...)
		}
		return c
	}
	g10, g20 := copyG(g1), copyG(g2)
	bg := graph.MakeBiGraph(g1)
	calls := []func() string{
		func() string { return fmt.Sprint(PreOrder(g1, 0), PostOrder(g1, 0), PreOrder(g2, 5)) },
		func() string { return fmt.Sprint(IDom(bg, 0)) },
		func() string {
			idom := IDom(bg, 0)
			d := Dom(idom)
			s := fmt.Sprint(DomFrontier(bg, 0, idom))
			for i := 0; i < d.NumNodes(); i++ {
				s += fmt.Sprint(d.Out(i), d.In(i))
			}
			return s
		},
		func() string {
			s := SCC(g1, SCCSubnodeComponent|SCCEdges)
			r := ""
			for c := 0; c < s.NumNodes(); c++ {
				r += fmt.Sprint(s.Subnodes(c), s.Out(c))
			}
			return r
		},
		func() string {
			var tr []int
			Euler{Enter: func(n int) { tr = append(tr, n) }, Exit: func(n int) { tr = append(tr, -n-1) }}.Visit(g1, 0)
			return fmt.Sprint(tr)
		},
		func() string {
			s := SimplifyMulti(g1)
			r := ""
			for n := 0; n < s.NumNodes(); n++ {
				r += fmt.Sprint(s.Out(n))
				for e := range s.Out(n) {
					r += fmt.Sprint(s.OutWeight(n, e))
				}
			}
			return r
		},
		func() string { return fmt.Sprint(graph.Equal(g1, g2), graph.Equal(g1, g1)) },
		func() string {
			sk := graph.SubgraphKeep(g1, []int{3, 1, 0}, []graph.Edge{{Node: 0, Edge: 1}, {Node: 1, Edge: 0}, {Node: 3, Edge: 0}})
			sr := graph.SubgraphRemove(g1, []int{4, 2}, []graph.Edge{{Node: 0, Edge: 2}})
			r := ""
			id := func(n int) interface{} { return n }
			for n := 0; n < sk.NumNodes(); n++ {
				r += fmt.Sprint(sk.Out(n), sk.NodeMap(id)(n))
			}
			for n := 0; n < sr.NumNodes(); n++ {
				r += fmt.Sprint(sr.Out(n), sr.NodeMap(id)(n))
			}
			return r
		},
		func() string {
			b := graph.MakeBiGraph(g2)
			r := ""
			for n := 0; n < b.NumNodes(); n++ {
				r += fmt.Sprint(b.In(n))
			}
			return r
		},
	}
	want := make([]string, len(calls))
	for i, c := range calls {
		want[i] = c()
		if again := c(); again != want[i] {
			fmt.Printf("BOUNDED-FAIL call %d is not deterministic sequentially: %s then %s\n", i, want[i], again)
			t.Fatal("not deterministic")
		}
	}
	var wg sync.WaitGroup
	var mu sync.Mutex
	nfail := 0
	for w := 0; w < workers; w++ {
		wg.Add(1)
		go func(w int) {
			defer wg.Done()
			for rep := 0; rep < 3; rep++ {
				for k := range calls {
					i := (k + w) % len(calls)
					if got := calls[i](); got != want[i] {
						mu.Lock()
						nfail++
						if nfail <= 5 {
							fmt.Printf("BOUNDED-FAIL goroutine %d call %d: %s, sequential result %s\n", w, i, got, want[i])
						}
						mu.Unlock()
					}
				}
			}
		}(w)
	}
	wg.Wait()
	if !reflect.DeepEqual(copyG(g1), g10) || !reflect.DeepEqual(copyG(g2), g20) {
		nfail++
		fmt.Printf("BOUNDED-FAIL shared graphs modified: %v %v\n", g1, g2)
	}
	for _, g := range []graph.IntGraph{g1, g2} {
		for i := range g {
			for _, v := range g[i][len(g[i]):cap(g[i])] {
				if v != 0 {
					nfail++
					fmt.Printf("BOUNDED-FAIL spare capacity of an adjacency list written: node %d\n", i)
				}
			}
		}
	}
	if nfail > 0 {
		t.Fatalf("%d failures", nfail)
	}
	fmt.Printf("BOUNDED-OK calls=%d goroutines=%d\n", len(calls), workers)
}
