package scale

// Bounded stand-in (C17, labelled bounded) for what the contracts assume or do
// not express: the tick count is non-increasing in the level (the [monotone]
// precondition of Ticks / Nice@real), every major tick is also a minor tick,
// Nice is idempotent for Max >= 3 and afterwards the first and last major ticks
// are the new bounds. Domains with width 1e-9..1e9 and |centre|/width <= 1e3,
// bases 0, 2, 3, 5, 10, 16, Log domains from 1e-100 to 1e100 of either sign,
// TickOptions.Max 1..20.

import (
	"fmt"
	"math"
	"os"
	"strconv"
	"testing"
)

func c17seed(s uint64) uint64 {
	if v, err := strconv.ParseUint(os.Getenv("VERIF_SEED"), 10, 64); err == nil && v != 0 {
		s ^= v * 0x9E3779B97F4A7C15
		if s == 0 {
			s = 1
		}
	}
	return s
}

func TestBoundedTicks(t *testing.T) {
	trials := 400
	if v, err := strconv.Atoi(os.Getenv("VERIF_BOUND_N")); err == nil && v > 0 {
		trials = v
	}
	seed := c17seed(4101842887655102017)
	next := func(m int) int {
		seed ^= seed << 13
		seed ^= seed >> 7
		seed ^= seed << 17
		return int(seed>>11) % m
	}
	unit := func() float64 { return float64(next(1<<30)) / float64(1<<30) }
	nfail, cases := 0, 0
	fail := func(s string) {
		nfail++
		if nfail <= 5 {
			fmt.Println("BOUNDED-FAIL " + s)
		}
	}
	contains := func(xs []float64, v, tol float64) bool {
		for _, x := range xs {
			if math.Abs(x-v) <= tol {
				return true
			}
		}
		return false
	}
	bases := []int{0, 2, 3, 5, 10, 16}
	for trial := 0; trial < trials; trial++ {
		// ---- linear
		width := math.Pow(10, -9+18*unit())
		centre := (2*unit() - 1) * 1e3 * width
		if next(4) == 0 {
			centre = 0
		}
		base := bases[next(len(bases))]
		lin := Linear{Min: centre - width/2, Max: centre + width/2, Base: base}
		tol := 1e-7 * width
		prev := math.MaxInt64
		g := lin.guessLevel()
		for l := g - 8; l <= g+8; l++ {
			cases++
			c := lin.CountTicks(l)
			if c >= 0 && c <= 5000 { // (the slice of a fine level on a wide domain would not fit in memory)
				ticks := lin.TicksAtLevel(l).([]float64)
				if c != len(ticks) {
					fail(fmt.Sprintf("%+v: CountTicks(%d) = %d, len(TicksAtLevel) = %d", lin, l, c, len(ticks)))
				}
			}
			if c > prev {
				fail(fmt.Sprintf("%+v: CountTicks(%d) = %d > CountTicks(%d) = %d", lin, l, c, l-1, prev))
			}
			prev = c
		}
		for _, max := range []int{1, 2, 3, 5, 8, 13, 20} {
			cases++
			o := TickOptions{Max: max}
			major, minor := lin.Ticks(o)
			if len(major) > max {
				fail(fmt.Sprintf("%+v.Ticks(Max %d): %d major ticks", lin, max, len(major)))
			}
			for i, v := range major {
				if v < lin.Min-tol || v > lin.Max+tol || (i > 0 && v <= major[i-1]) {
					fail(fmt.Sprintf("%+v.Ticks(Max %d): major ticks %v not ascending inside the domain", lin, max, major))
					break
				}
				if !contains(minor, v, tol) {
					fail(fmt.Sprintf("%+v.Ticks(Max %d): major tick %v is not a minor tick (%v)", lin, max, v, minor))
					break
				}
			}
			for i, v := range minor {
				if v < lin.Min-tol || v > lin.Max+tol || (i > 0 && v <= minor[i-1]) {
					fail(fmt.Sprintf("%+v.Ticks(Max %d): minor ticks not ascending inside the domain", lin, max))
					break
				}
			}
			n1 := lin
			n1.Nice(o)
			if math.IsNaN(n1.Min) || math.IsInf(n1.Min, 0) || math.IsNaN(n1.Max) || math.IsInf(n1.Max, 0) || n1.Min > lin.Min+tol || n1.Max < lin.Max-tol {
				fail(fmt.Sprintf("%+v.Nice(Max %d) = [%g,%g] shrinks the domain or is not finite", lin, max, n1.Min, n1.Max))
			}
			if max >= 3 {
				w1 := n1.Max - n1.Min
				n2 := n1
				n2.Nice(o)
				if math.Abs(n2.Min-n1.Min) > 1e-7*w1 || math.Abs(n2.Max-n1.Max) > 1e-7*w1 {
					fail(fmt.Sprintf("%+v.Nice(Max %d) is not idempotent: [%g,%g] then [%g,%g]", lin, max, n1.Min, n1.Max, n2.Min, n2.Max))
				}
				mj, _ := n1.Ticks(o)
				if len(mj) == 0 || math.Abs(mj[0]-n1.Min) > 1e-7*w1 || math.Abs(mj[len(mj)-1]-n1.Max) > 1e-7*w1 {
					fail(fmt.Sprintf("%+v.Nice(Max %d) = [%g,%g] but the major ticks are %v", lin, max, n1.Min, n1.Max, mj))
				}
			}
		}
		// ---- log
		lo := math.Pow(10, -100+190*unit())
		hi := lo * math.Pow(10, 0.3+10*unit())
		lbase := []int{2, 3, 5, 10, 16}[next(5)]
		sign := 1.0
		if next(2) == 0 {
			sign = -1
		}
		lg, err := NewLog(sign*lo, sign*hi, lbase)
		if err != nil {
			fail(fmt.Sprintf("NewLog(%g,%g,%d): %v", sign*lo, sign*hi, lbase, err))
			continue
		}
		prev = math.MaxInt64
		for l := 0; l <= 6; l++ {
			cases++
			c := lg.CountTicks(l)
			if c > prev {
				fail(fmt.Sprintf("%+v: CountTicks(%d) = %d, previous level %d", lg, l, c, prev))
			}
			if c >= 0 && c <= 5000 {
				if ticks := lg.TicksAtLevel(l).([]float64); c != len(ticks) {
					fail(fmt.Sprintf("%+v: CountTicks(%d) = %d, len(TicksAtLevel) = %d", lg, l, c, len(ticks)))
				}
			}
			prev = c
		}
		for _, max := range []int{1, 2, 3, 5, 8, 13, 20} {
			cases++
			o := TickOptions{Max: max}
			major, minor := lg.Ticks(o)
			if len(major) > max {
				fail(fmt.Sprintf("%+v.Ticks(Max %d): %d major ticks", lg, max, len(major)))
			}
			for i, v := range major {
				rel := 1e-7 * math.Abs(v)
				if v < lg.Min-rel || v > lg.Max+rel || (i > 0 && v <= major[i-1]) {
					fail(fmt.Sprintf("%+v.Ticks(Max %d): major ticks %v not ascending inside the domain", lg, max, major))
					break
				}
				e := math.Log(math.Abs(v)) / math.Log(float64(lbase))
				if math.Abs(e-math.Round(e)) > 1e-6 {
					fail(fmt.Sprintf("%+v.Ticks(Max %d): major tick %v is not a power of the base", lg, max, v))
					break
				}
				if !contains(minor, v, rel) {
					fail(fmt.Sprintf("%+v.Ticks(Max %d): major tick %v is not a minor tick (%v)", lg, max, v, minor))
					break
				}
			}
			n1 := lg
			n1.Nice(o)
			if math.IsNaN(n1.Min) || math.IsInf(n1.Min, 0) || math.IsNaN(n1.Max) || math.IsInf(n1.Max, 0) || !(n1.Min < n1.Max) || n1.Min*lg.Min <= 0 {
				fail(fmt.Sprintf("%+v.Nice(Max %d) = [%g,%g]", lg, max, n1.Min, n1.Max))
			}
			if max >= 3 {
				n2 := n1
				n2.Nice(o)
				if math.Abs(n2.Min-n1.Min) > 1e-7*math.Abs(n1.Min) || math.Abs(n2.Max-n1.Max) > 1e-7*math.Abs(n1.Max) {
					fail(fmt.Sprintf("%+v.Nice(Max %d) is not idempotent: [%g,%g] then [%g,%g]", lg, max, n1.Min, n1.Max, n2.Min, n2.Max))
				}
			}
		}
	}
	if nfail > 0 {
		t.Fatalf("%d failures", nfail)
	}
	fmt.Printf("BOUNDED-OK cases=%d trials=%d\n", cases, trials)
}
