package fit

// Bounded stand-in (C20), schedule clause: 16 goroutines fit and evaluate on
// the same shared, unsorted inputs under the race detector. Labelled bounded.

import (
	"fmt"
	"math"
	"os"
	"reflect"
	"strconv"
	"sync"
	"testing"

	"github.com/aclements/go-moremath/vec"
)

func TestBoundedConcurrentFit(t *testing.T) {
	workers := 16
	if v, err := strconv.Atoi(os.Getenv("VERIF_BOUND_N")); err == nil && v > 0 {
		workers = v
	}
	xs := append(make([]float64, 0, 64), 5, 1, 3, 9, 2, 7, 4, 8, 6, 0)
	ys := append(make([]float64, 0, 64), 2.5, 0.1, 1.2, 8.5, 0.7, 5.1, 2.0, 6.9, 3.9, -0.2)
	ws := append(make([]float64, 0, 64), 1, 2, 1, 1, 3, 1, 2, 1, 1, 1)
	xs0, ys0, ws0 := append([]float64(nil), xs...), append([]float64(nil), ys...), append([]float64(nil), ws...)
	bits := func(vs ...float64) string {
		s := ""
		for _, v := range vs {
			s += fmt.Sprintf("%016x ", math.Float64bits(v))
		}
		return s
	}
	shared := LOESS(xs, ys, 2, 0.6)
	calls := []func() string{
		func() string { r := PolynomialRegression(xs, ys, ws, 2); return bits(r.Coefficients...) + bits(r.F(2.5)) },
		func() string { r := PolynomialRegression(xs, ys, nil, 3); return bits(r.Coefficients...) },
		func() string { f := LOESS(xs, ys, 1, 0.5); return bits(f(2.5), f(7.25), f(0)) },
		func() string { return bits(shared(3.5), shared(8), shared(1)) },
		func() string { return bits(vec.Sum(xs)) + bits(vec.Concat(xs, ys)...) + bits(vec.Map(math.Sqrt, xs)...) },
		func() string { return bits(vec.Linspace(0, 1, 7)...) + bits(vec.Logspace(0, 2, 5, 10)...) },
	}
	want := make([]string, len(calls))
	for i, c := range calls {
		want[i] = c()
		if again := c(); again != want[i] {
			fmt.Printf("BOUNDED-FAIL call %d is not deterministic sequentially\n", i)
			t.Fatal("not deterministic")
		}
	}
	var wg sync.WaitGroup
	var mu sync.Mutex
	nfail := 0
	for w := 0; w < workers; w++ {
		wg.Add(1)
		go func(w int) {
			defer wg.Done()
			for rep := 0; rep < 3; rep++ {
				for k := range calls {
					i := (k + w) % len(calls)
					if got := calls[i](); got != want[i] {
						mu.Lock()
						nfail++
						if nfail <= 5 {
							fmt.Printf("BOUNDED-FAIL goroutine %d call %d: %s, sequential result %s\n", w, i, got, want[i])
						}
						mu.Unlock()
					}
				}
			}
		}(w)
	}
	wg.Wait()
	spare := func(s []float64) bool {
		for _, v := range s[len(s):cap(s)] {
			if v != 0 {
				return true
			}
		}
		return false
	}
	if !reflect.DeepEqual(xs, xs0) || !reflect.DeepEqual(ys, ys0) || !reflect.DeepEqual(ws, ws0) || spare(xs) || spare(ys) || spare(ws) {
		nfail++
		fmt.Printf("BOUNDED-FAIL shared inputs modified: %v %v %v\n", xs, ys, ws)
	}
	if nfail > 0 {
		t.Fatalf("%d failures", nfail)
	}
	fmt.Printf("BOUNDED-OK calls=%d goroutines=%d\n", len(calls), workers)
}
