package stats

// Bounded stand-in for the ASSUMED contract of makeUmemo (C02): outside the
// verifier's reach (it ranges over maps). Labelled bounded, never counted as
// proved. For every tie vector t with 2 <= len(t) <= maxK, entries 1..maxT and
// sum(t) <= maxN, every 1 <= n1 < sum(t) and every attainable and
// unattainable 2U in [-1, 2*n1*n2+1], the count returned by makeUmemo must
// equal the number of ways to give n1 of the ranked values to the first
// sample with 2U <= twoU, by direct enumeration of the per-rank allocations.
// The same enumeration checks UDist.CDF / PMF (tied path) and, with all ties
// 1, the spec-level claim that the recurrence pmw computed by UDist.p is that
// count divided by C(N1+N2, N1) (DESIGN A5, M2).

import (
	"fmt"
	"math"
	"os"
	"strconv"
	"testing"
)

func bcChoose(n, k int) float64 {
	if k < 0 || k > n {
		return 0
	}
	r := 1.0
	for i := 0; i < k; i++ {
		r = r * float64(n-i) / float64(i+1)
	}
	return math.Round(r)
}

// counts[twoU] = number of allocations with that 2U
func bcEnumerate(t []int, n1 int) map[int]float64 {
	out := map[int]float64{}
	var rec func(k, left, below2 int, twoU int, ways float64)
	// below2: number of sample-2 values in lower ranks
	rec = func(k, left, below2, twoU int, ways float64) {
		if k == len(t) {
			if left == 0 {
				out[twoU] += ways
			}
			return
		}
		for r := 0; r <= t[k] && r <= left; r++ {
			s2 := t[k] - r
			// 2U contribution: 2*r*below2 + r*s2
			rec(k+1, left-r, below2+s2, twoU+2*r*below2+r*s2, ways*bcChoose(t[k], r))
		}
	}
	rec(0, n1, 0, 0, 1)
	return out
}

func TestBoundedUmemo(t *testing.T) {
	maxN := 7
	if v, err := strconv.Atoi(os.Getenv("VERIF_BOUND_N")); err == nil && v > 0 {
		maxN = v
	}
	maxK := 4
	cases, nontrivial := 0, 0
	fail := func(format string, a ...interface{}) {
		msg := fmt.Sprintf(format, a...)
		fmt.Printf("BOUNDED-FAIL %s\n", msg)
		t.Fatal(msg)
	}
	var vecs [][]int
	var gen func(cur []int, sum int)
	gen = func(cur []int, sum int) {
		if len(cur) >= 2 {
			vecs = append(vecs, append([]int(nil), cur...))
		}
		if len(cur) == maxK {
			return
		}
		for v := 1; sum+v <= maxN; v++ {
			gen(append(cur, v), sum+v)
		}
	}
	gen(nil, 0)
	for _, tv := range vecs {
		n := 0
		tied := false
		for _, v := range tv {
			n += v
			if v > 1 {
				tied = true
			}
		}
		for n1 := 1; n1 < n; n1++ {
			n2 := n - n1
			cnt := bcEnumerate(tv, n1)
			total := bcChoose(n, n1)
			cum := 0.0
			for twoU := -1; twoU <= 2*n1*n2+1; twoU++ {
				cum += cnt[twoU]
				cases++
				if twoU >= 0 {
					memo := makeUmemo(twoU, n1, tv)
					got, ok := memo[len(tv)][ukey{n1, twoU}]
					if !ok || math.Abs(got-cum) > 1e-6 {
						fail("makeUmemo(twoU=%d, n1=%d, t=%v) = %v (present %v), enumeration gives %v", twoU, n1, tv, got, ok, cum)
					}
					nontrivial++
				}
				if tied {
					u := float64(twoU) / 2
					d := UDist{N1: n1, N2: n2, T: tv}
					wantC := cum / total
					if twoU < 0 {
						wantC = 0
					}
					if twoU >= 2*n1*n2 {
						wantC = 1
					}
					if g := d.CDF(u); math.Abs(g-wantC) > 1e-9 {
						fail("UDist{%d,%d,%v}.CDF(%v) = %v, exact %v", n1, n2, tv, u, g, wantC)
					}
					wantP := cnt[twoU] / total
					if twoU < 0 || twoU > 2*n1*n2 {
						wantP = 0
					}
					if g := d.PMF(u); math.Abs(g-wantP) > 1e-9 {
						fail("UDist{%d,%d,%v}.PMF(%v) = %v, exact %v", n1, n2, tv, u, g, wantP)
					}
				}
			}
		}
	}
	// untied: pmw (what UDist.p is proved to compute) against the count
	for n1 := 1; n1 <= maxN-1; n1++ {
		for n2 := 1; n1+n2 <= maxN+2; n2++ {
			ones := make([]int, n1+n2)
			for i := range ones {
				ones[i] = 1
			}
			cnt := bcEnumerate(ones, n1)
			total := bcChoose(n1+n2, n1)
			ps := UDist{N1: n1, N2: n2}.p(n1 * n2)
			for u := 0; u <= n1*n2; u++ {
				cases++
				nontrivial++
				if math.Abs(ps[u]-cnt[2*u]/total) > 1e-9 {
					fail("UDist{%d,%d}.p(%d)[%d] = %v, count/total = %v", n1, n2, n1*n2, u, ps[u], cnt[2*u]/total)
				}
			}
		}
	}
	fmt.Printf("BOUNDED-OK cases=%d nontrivial=%d tie_vectors=%d maxN=%d maxK=%d\n", cases, nontrivial, len(vecs), maxN, maxK)
}
