package stats

// Bounded stand-ins (labelled bounded, never counted as proved) for RELATIONAL
// clauses - statements about two or more calls, or about whole histories -
// which per-call contracts do not express: invariance of the U test under
// reordering, increasing maps and swapping (C03); weights = repetition, order
// independence, Sorted flag (C09); bounds, monotonicity and order independence
// of Quantile (C10); nesting of QuantileCI in the confidence level (C11);
// arbitrary Add/Combine histories of StreamStats (C13); monotonicity of
// HistogramQuantile and conservation of counts (C14). Deterministic
// pseudo-random inputs with ties; the number of trials is VERIF_BOUND_N.

import (
	"fmt"
	"math"
	"os"
	"sort"
	"strconv"
	"testing"
)

type metaRng uint64

func (r *metaRng) next(m int) int {
	x := uint64(*r)
	x ^= x << 13
	x ^= x >> 7
	x ^= x << 17
	*r = metaRng(x)
	return int(x>>11) % m
}

func metaTrials() int {
	if v, err := strconv.Atoi(os.Getenv("VERIF_BOUND_N")); err == nil && v > 0 {
		return v
	}
	return 300
}

func metaSample(r *metaRng, n int) []float64 {
	xs := make([]float64, n)
	for i := range xs {
		xs[i] = float64(r.next(13))/2 - 1.5 // ties are frequent
	}
	return xs
}

func metaPerm(r *metaRng, xs []float64) []float64 {
	p := append([]float64(nil), xs...)
	for i := len(p) - 1; i > 0; i-- {
		j := r.next(i + 1)
		p[i], p[j] = p[j], p[i]
	}
	return p
}

func metaClose(a, b, rel float64) bool {
	if math.IsNaN(a) || math.IsNaN(b) {
		return math.IsNaN(a) && math.IsNaN(b)
	}
	return a == b || math.Abs(a-b) <= rel*math.Max(1, math.Max(math.Abs(a), math.Abs(b)))
}

func TestBoundedMWInvariance(t *testing.T) {
	r := metaRng(verifSeed(88172645463325252))
	nfail, cases := 0, 0
	fail := func(s string) {
		nfail++
		if nfail <= 5 {
			fmt.Println("BOUNDED-FAIL " + s)
		}
	}
	alts := []LocationHypothesis{LocationLess, LocationDiffers, LocationGreater}
	for trial := 0; trial < metaTrials(); trial++ {
		x1, x2 := metaSample(&r, 1+r.next(9)), metaSample(&r, 1+r.next(9))
		if trial%10 == 9 { // above the exact-method limit for tied data: normal approximation
			x1, x2 = metaSample(&r, 26+r.next(10)), metaSample(&r, 26+r.next(10))
		}
		for ai, alt := range alts {
			cases++
			base, err := MannWhitneyUTest(x1, x2, alt)
			p1, p2 := metaPerm(&r, x1), metaPerm(&r, x2)
			perm, err2 := MannWhitneyUTest(p1, p2, alt)
			if (err == nil) != (err2 == nil) || (err == nil && (perm.U != base.U || !metaClose(perm.P, base.P, 1e-12))) {
				fail(fmt.Sprintf("MannWhitneyUTest(%v,%v,%v) = %+v %v but on reordered samples %+v %v", x1, x2, alt, base, err, perm, err2))
			}
			m1, m2 := make([]float64, len(x1)), make([]float64, len(x2))
			for i, v := range x1 {
				m1[i] = math.Exp(v/4) + 3
			}
			for i, v := range x2 {
				m2[i] = math.Exp(v/4) + 3
			}
			mono, err3 := MannWhitneyUTest(m1, m2, alt)
			if (err == nil) != (err3 == nil) || (err == nil && (mono.U != base.U || !metaClose(mono.P, base.P, 1e-12))) {
				fail(fmt.Sprintf("MannWhitneyUTest(%v,%v,%v) = %+v %v but after a strictly increasing map %+v %v", x1, x2, alt, base, err, mono, err3))
			}
			// Known finding D3 (KNOWN_FINDINGS, C01/C03): in the exact branch with
			// ties the two-sided p-value is wrong and depends on the orientation;
			// that class is excluded from the comparison of P under swapping (the
			// U law is still checked), every other case is compared.
			pooled := append(append([]float64(nil), x1...), x2...)
			sort.Float64s(pooled)
			ties := false
			for i := 1; i < len(pooled); i++ {
				ties = ties || pooled[i] == pooled[i-1]
			}
			d3 := alt == LocationDiffers && ties && len(x1) <= MannWhitneyTiesExactLimit && len(x2) <= MannWhitneyTiesExactLimit
			swap, err4 := MannWhitneyUTest(x2, x1, alts[2-ai])
			if d3 && err == nil && err4 == nil {
				swap.P = base.P
			}
			if (err == nil) != (err4 == nil) || (err == nil && (swap.U+base.U != float64(len(x1)*len(x2)) || !metaClose(swap.P, base.P, 1e-9) || swap.N1 != base.N2 || swap.N2 != base.N1)) {
				fail(fmt.Sprintf("MannWhitneyUTest(%v,%v,%v) = %+v %v but swapped with the mirrored alternative %+v %v", x1, x2, alt, base, err, swap, err4))
			}
			if err == nil && base.U != math.Floor(2*base.U)/2 {
				fail(fmt.Sprintf("MannWhitneyUTest(%v,%v): U = %v is not a multiple of 0.5", x1, x2, base.U))
			}
		}
	}
	if nfail > 0 {
		t.Fatalf("%d failures", nfail)
	}
	fmt.Printf("BOUNDED-OK cases=%d\n", cases)
}

func TestBoundedSampleLaws(t *testing.T) {
	r := metaRng(verifSeed(1442695040888963407))
	nfail, cases := 0, 0
	fail := func(s string) {
		nfail++
		if nfail <= 5 {
			fmt.Println("BOUNDED-FAIL " + s)
		}
	}
	for trial := 0; trial < metaTrials(); trial++ {
		n := 1 + r.next(12)
		xs := make([]float64, n)
		ws := make([]float64, n)
		var rep []float64
		for i := range xs {
			xs[i] = float64(1+r.next(40)) / 4
			ws[i] = float64(r.next(4))
			for k := 0; k < int(ws[i]); k++ {
				rep = append(rep, xs[i])
			}
		}
		cases++
		w, u := Sample{Xs: xs, Weights: ws}, Sample{Xs: rep}
		wlo, whi := w.Bounds()
		ulo, uhi := u.Bounds()
		if len(rep) > 0 {
			if !metaClose(w.Mean(), u.Mean(), 1e-12) || !metaClose(w.GeoMean(), u.GeoMean(), 1e-12) || !metaClose(w.Sum(), u.Sum(), 1e-12) || w.Weight() != u.Weight() || wlo != ulo || whi != uhi {
				fail(fmt.Sprintf("weights %v on %v: Mean %v GeoMean %v Sum %v Weight %v Bounds %v %v; repeated sample: %v %v %v %v %v %v", ws, xs, w.Mean(), w.GeoMean(), w.Sum(), w.Weight(), wlo, whi, u.Mean(), u.GeoMean(), u.Sum(), u.Weight(), ulo, uhi))
			}
		}
		// a zero-weight value is absent: its magnitude must not matter either
		if len(rep) > 0 {
			pos := r.next(n + 1)
			huge := []float64{1e17, -1e17, 1e9, 3e12}[r.next(4)]
			hx := append(append(append([]float64(nil), xs[:pos]...), huge), xs[pos:]...)
			hw := append(append(append([]float64(nil), ws[:pos]...), 0), ws[pos:]...)
			h := Sample{Xs: hx, Weights: hw}
			hlo, hhi := h.Bounds()
			if !metaClose(h.Mean(), u.Mean(), 1e-12) || !metaClose(h.Sum(), u.Sum(), 1e-12) || h.Weight() != u.Weight() || hlo != ulo || hhi != uhi {
				fail(fmt.Sprintf("zero-weight value %v inserted at %d into %v (weights %v): Mean %v Sum %v Weight %v Bounds %v %v; without it: %v %v %v %v %v", huge, pos, xs, ws, h.Mean(), h.Sum(), h.Weight(), hlo, hhi, u.Mean(), u.Sum(), u.Weight(), ulo, uhi))
			}
		}
		p := metaPerm(&r, xs)
		lo, hi := Bounds(xs)
		plo, phi := Bounds(p)
		if !metaClose(Mean(xs), Mean(p), 1e-12) || !metaClose(Variance(xs), Variance(p), 1e-9) || !metaClose(GeoMean(xs), GeoMean(p), 1e-12) || lo != plo || hi != phi {
			fail(fmt.Sprintf("order dependence on %v vs %v: Mean %v %v Variance %v %v GeoMean %v %v", xs, p, Mean(xs), Mean(p), Variance(xs), Variance(p), GeoMean(xs), GeoMean(p)))
		}
		srt := append([]float64(nil), xs...)
		sort.Float64s(srt)
		s0, s1 := Sample{Xs: srt}, Sample{Xs: srt, Sorted: true}
		a0, b0 := s0.Bounds()
		a1, b1 := s1.Bounds()
		if a0 != a1 || b0 != b1 || s0.Mean() != s1.Mean() {
			fail(fmt.Sprintf("Sorted flag changes results on %v", srt))
		}
		// Quantile: between min and max, non-decreasing in q, the same for any order and for the Sorted flag
		prev := math.Inf(-1)
		for qi := 0; qi <= 20; qi++ {
			q := float64(qi) / 20
			v := Sample{Xs: xs}.Quantile(q)
			if v < lo || v > hi || v < prev || v != (Sample{Xs: p}).Quantile(q) || v != s1.Quantile(q) {
				fail(fmt.Sprintf("Sample{%v}.Quantile(%v) = %v: min %v max %v previous %v, reordered %v, sorted %v", xs, q, v, lo, hi, prev, (Sample{Xs: p}).Quantile(q), s1.Quantile(q)))
			}
			prev = v
		}
		if lo != (Sample{Xs: xs}).Quantile(0) || hi != (Sample{Xs: xs}).Quantile(1) {
			fail(fmt.Sprintf("Sample{%v}: Quantile(0), Quantile(1) = %v, %v; min, max = %v, %v", xs, (Sample{Xs: xs}).Quantile(0), (Sample{Xs: xs}).Quantile(1), lo, hi))
		}
	}
	if nfail > 0 {
		t.Fatalf("%d failures", nfail)
	}
	fmt.Printf("BOUNDED-OK cases=%d\n", cases)
}

func TestBoundedQuantileCINesting(t *testing.T) {
	nfail, cases := 0, 0
	fail := func(s string) {
		nfail++
		if nfail <= 5 {
			fmt.Println("BOUNDED-FAIL " + s)
		}
	}
	maxN := 30
	if metaTrials() < 300 {
		maxN = 12
	}
	for n := 1; n <= maxN; n++ {
		for qi := 0; qi <= 20; qi++ {
			q := float64(qi) / 20
			d := BinomialDist{n, q}
			prev := QuantileCI(n, q, 0)
			for ci := 1; ci <= 40; ci++ {
				c := float64(ci) / 40
				cases++
				cur := QuantileCI(n, q, c)
				if cur.LoOrder > prev.LoOrder || cur.HiOrder < prev.HiOrder {
					fail(fmt.Sprintf("QuantileCI(%d,%v,%v) = [%d,%d) is not nested around the interval [%d,%d) for the previous level", n, q, c, cur.LoOrder, cur.HiOrder, prev.LoOrder, prev.HiOrder))
				}
				// contains a bucket of maximal mass
				best := 0.0
				for k := 0; k <= n; k++ {
					best = math.Max(best, d.PMF(float64(k)))
				}
				inside := 0.0
				for k := cur.LoOrder; k < cur.HiOrder; k++ {
					inside = math.Max(inside, d.PMF(float64(k)))
				}
				if inside < best*(1-1e-12) {
					fail(fmt.Sprintf("QuantileCI(%d,%v,%v) = [%d,%d) misses the binomial mode", n, q, c, cur.LoOrder, cur.HiOrder))
				}
				prev = cur
			}
		}
	}
	if nfail > 0 {
		t.Fatalf("%d failures", nfail)
	}
	fmt.Printf("BOUNDED-OK cases=%d maxn=%d\n", cases, maxN)
}

func TestBoundedStreamHistories(t *testing.T) {
	r := metaRng(verifSeed(6364136223846793005))
	nfail, cases := 0, 0
	fail := func(s string) {
		nfail++
		if nfail <= 5 {
			fmt.Println("BOUNDED-FAIL " + s)
		}
	}
	// a random history: a binary tree of Combine over leaves built by Add
	var build func(depth int) (*StreamStats, []float64)
	build = func(depth int) (*StreamStats, []float64) {
		if depth == 0 || r.next(3) == 0 {
			s := &StreamStats{}
			var vals []float64
			for k := r.next(6); k > 0; k-- { // possibly empty
				v := float64(r.next(41))/4 - 5
				s.Add(v)
				vals = append(vals, v)
			}
			return s, vals
		}
		a, av := build(depth - 1)
		b, bv := build(depth - 1)
		b0 := *b
		a.Combine(b)
		if *b != b0 {
			fail(fmt.Sprintf("Combine modified its argument: %+v -> %+v", b0, *b))
		}
		for k := r.next(3); k > 0; k-- {
			v := float64(r.next(41))/4 - 5
			a.Add(v)
			av = append(av, v)
		}
		return a, append(av, bv...)
	}
	for trial := 0; trial < metaTrials(); trial++ {
		s, vals := build(4)
		cases++
		n := float64(len(vals))
		sum, sq, lo, hi := 0.0, 0.0, math.Inf(1), math.Inf(-1)
		for _, v := range vals {
			sum += v
			sq += v * v
			lo, hi = math.Min(lo, v), math.Max(hi, v)
		}
		if s.Count != uint(len(vals)) || !metaClose(s.Total, sum, 1e-12) || (len(vals) > 0 && (s.Min != lo || s.Max != hi)) {
			fail(fmt.Sprintf("history over %v: Count %d Total %v Min %v Max %v", vals, s.Count, s.Total, s.Min, s.Max))
		}
		if len(vals) > 0 && (!metaClose(s.Mean(), sum/n, 1e-9) || !metaClose(s.RMS(), math.Sqrt(sq/n), 1e-9)) {
			fail(fmt.Sprintf("history over %v: Mean %v (want %v) RMS %v (want %v)", vals, s.Mean(), sum/n, s.RMS(), math.Sqrt(sq/n)))
		}
		if len(vals) > 1 {
			m := sum / n
			v := 0.0
			for _, x := range vals {
				v += (x - m) * (x - m)
			}
			v /= n - 1
			if !metaClose(s.Variance(), v, 1e-9) || !metaClose(s.StdDev(), math.Sqrt(v), 1e-9) {
				fail(fmt.Sprintf("history over %v: Variance %v (want %v)", vals, s.Variance(), v))
			}
		}
	}
	if nfail > 0 {
		t.Fatalf("%d failures", nfail)
	}
	fmt.Printf("BOUNDED-OK cases=%d\n", cases)
}

func TestBoundedHistMonotone(t *testing.T) {
	r := metaRng(verifSeed(2685821657736338717))
	nfail, cases := 0, 0
	fail := func(s string) {
		nfail++
		if nfail <= 5 {
			fmt.Println("BOUNDED-FAIL " + s)
		}
	}
	for trial := 0; trial < metaTrials(); trial++ {
		var hists []Histogram
		hists = append(hists, NewLinearHist(0, 10, 1+r.next(8)), NewLogHist(2, float64(1+r.next(4)), 64))
		for hi, h := range hists {
			n := r.next(25)
			for k := 0; k < n; k++ {
				v := float64(r.next(56))/4 - 2
				if hi == 1 {
					v = math.Exp(float64(r.next(40))/8 - 1)
				}
				h.Add(v)
			}
			under, counts, over := h.Counts()
			tot := under + over
			for _, c := range counts {
				tot += c
			}
			cases++
			if tot != uint(n) {
				fail(fmt.Sprintf("histogram %d: %d values added, counts sum to %d", hi, n, tot))
			}
			prev := math.Inf(-1)
			for qi := 0; qi <= 40; qi++ {
				v := HistogramQuantile(h, float64(qi)/40)
				if math.IsNaN(v) {
					continue
				}
				if v < prev {
					fail(fmt.Sprintf("histogram %d with counts %d %v %d: HistogramQuantile decreases at q=%v: %v after %v", hi, under, counts, over, float64(qi)/40, v, prev))
				}
				prev = v
			}
		}
	}
	if nfail > 0 {
		t.Fatalf("%d failures", nfail)
	}
	fmt.Printf("BOUNDED-OK cases=%d\n", cases)
}

// C04: shift / scale invariance and the swap law of the t-tests, and the
// p-value against an independent evaluation of the t distribution.
func TestBoundedTTestLaws(t *testing.T) {
	r := metaRng(verifSeed(7046029254386353131))
	nfail, cases := 0, 0
	fail := func(s string) {
		nfail++
		if nfail <= 5 {
			fmt.Println("BOUNDED-FAIL " + s)
		}
	}
	alts := []LocationHypothesis{LocationLess, LocationDiffers, LocationGreater}
	tests := []func(a, b Sample, alt LocationHypothesis) (*TTestResult, error){
		func(a, b Sample, alt LocationHypothesis) (*TTestResult, error) { return TwoSampleTTest(a, b, alt) },
		func(a, b Sample, alt LocationHypothesis) (*TTestResult, error) { return TwoSampleWelchTTest(a, b, alt) },
		func(a, b Sample, alt LocationHypothesis) (*TTestResult, error) {
			n := len(a.Xs)
			if len(b.Xs) < n {
				n = len(b.Xs)
			}
			return PairedTTest(a.Xs[:n], b.Xs[:n], 0, alt)
		},
	}
	for trial := 0; trial < metaTrials(); trial++ {
		x1, x2 := metaSample(&r, 2+r.next(9)), metaSample(&r, 2+r.next(9))
		shift, scale := float64(r.next(21))-10, float64(1+r.next(16))/4
		tr := func(xs []float64) []float64 {
			o := make([]float64, len(xs))
			for i, v := range xs {
				o[i] = scale*v + shift
			}
			return o
		}
		for ti, test := range tests {
			for ai, alt := range alts {
				cases++
				base, err := test(Sample{Xs: x1}, Sample{Xs: x2}, alt)
				moved, err2 := test(Sample{Xs: tr(x1)}, Sample{Xs: tr(x2)}, alt)
				if (err == nil) != (err2 == nil) {
					// a zero-variance guard may trip on one side only through rounding; not a law of the property
					continue
				}
				if err != nil {
					continue
				}
				if !metaClose(moved.T, base.T, 1e-9) || !metaClose(moved.DoF, base.DoF, 1e-9) || !metaClose(moved.P, base.P, 1e-8) {
					fail(fmt.Sprintf("t-test %d (%v,%v,%v) = T %v DoF %v P %v; after x -> %v*x%+v: T %v DoF %v P %v", ti, x1, x2, alt, base.T, base.DoF, base.P, scale, shift, moved.T, moved.DoF, moved.P))
				}
				swap, err3 := test(Sample{Xs: x2}, Sample{Xs: x1}, alts[2-ai])
				if err3 != nil || !metaClose(swap.T, -base.T, 1e-12) || !metaClose(swap.DoF, base.DoF, 1e-12) || !metaClose(swap.P, base.P, 1e-9) {
					fail(fmt.Sprintf("t-test %d (%v,%v,%v) = T %v DoF %v P %v; swapped with the mirrored alternative: %+v %v", ti, x1, x2, alt, base.T, base.DoF, base.P, swap, err3))
				}
				if !(base.P >= 0 && base.P <= 1) {
					fail(fmt.Sprintf("t-test %d (%v,%v,%v): P = %v", ti, x1, x2, alt, base.P))
				}
				d := TDist{base.DoF}
				var want float64
				switch alt {
				case LocationLess:
					want = d.CDF(base.T)
				case LocationGreater:
					want = 1 - d.CDF(base.T)
				default:
					want = 2 * (1 - d.CDF(math.Abs(base.T)))
				}
				if !metaClose(base.P, want, 1e-9) {
					fail(fmt.Sprintf("t-test %d (%v,%v,%v): P = %v, from the t distribution with %v degrees of freedom at T = %v: %v", ti, x1, x2, alt, base.P, base.DoF, base.T, want))
				}
			}
		}
	}
	if nfail > 0 {
		t.Fatalf("%d failures", nfail)
	}
	fmt.Printf("BOUNDED-OK cases=%d\n", cases)
}

// verifSeed mixes VERIF_SEED (if set) into a generator's initial state, so that
// different seeds explore different pseudo-random inputs; 0 keeps the default.
func verifSeed(s uint64) uint64 {
	if v, err := strconv.ParseUint(os.Getenv("VERIF_SEED"), 10, 64); err == nil && v != 0 {
		s ^= v * 0x9E3779B97F4A7C15
		if s == 0 {
			s = 0x9E3779B97F4A7C15
		}
	}
	return s
}

// C01: U is the pair count and, in the exact branch, P is the conditional
// probability over all relabellings of the pooled values (brute force).
func TestBoundedMWExact(t *testing.T) {
	r := metaRng(verifSeed(5871781006564002453))
	nfail, cases := 0, 0
	fail := func(s string) {
		nfail++
		if nfail <= 5 {
			fmt.Println("BOUNDED-FAIL " + s)
		}
	}
	pairU := func(a, b []float64) float64 {
		u := 0.0
		for _, x := range a {
			for _, y := range b {
				if x > y {
					u++
				} else if x == y {
					u += 0.5
				}
			}
		}
		return u
	}
	trials := metaTrials()
	if trials > 3000 {
		trials = 3000
	}
	for trial := 0; trial < trials; trial++ {
		n1, n2 := 1+r.next(5), 1+r.next(5)
		x1, x2 := metaSample(&r, n1), metaSample(&r, n2)
		if trial%3 == 0 { // untied
			for i := range x1 {
				x1[i] = float64(i*2) + float64(r.next(2))*0.25
			}
			for i := range x2 {
				x2[i] = float64(i*2) + 1 + float64(r.next(2))*0.25
			}
		}
		pooled := append(append([]float64(nil), x1...), x2...)
		n := len(pooled)
		u := pairU(x1, x2)
		le, ge, total := 0, 0, 0
		for mask := 0; mask < 1<<uint(n); mask++ {
			var a, b []float64
			for i := 0; i < n; i++ {
				if mask>>uint(i)&1 == 1 {
					a = append(a, pooled[i])
				} else {
					b = append(b, pooled[i])
				}
			}
			if len(a) != n1 {
				continue
			}
			total++
			up := pairU(a, b)
			if up <= u {
				le++
			}
			if up >= u {
				ge++
			}
		}
		sorted := append([]float64(nil), pooled...)
		sort.Float64s(sorted)
		ties, allEq := false, true
		for i := 1; i < n; i++ {
			ties = ties || sorted[i] == sorted[i-1]
			allEq = allEq && sorted[i] == sorted[i-1]
		}
		for _, alt := range []LocationHypothesis{LocationLess, LocationGreater, LocationDiffers} {
			cases++
			res, err := MannWhitneyUTest(x1, x2, alt)
			if allEq {
				if err != ErrSamplesEqual {
					fail(fmt.Sprintf("MannWhitneyUTest(%v,%v): all pooled values equal, error %v", x1, x2, err))
				}
				continue
			}
			if err != nil {
				fail(fmt.Sprintf("MannWhitneyUTest(%v,%v,%v): %v", x1, x2, alt, err))
				continue
			}
			if res.U != u || res.N1 != n1 || res.N2 != n2 {
				fail(fmt.Sprintf("MannWhitneyUTest(%v,%v): U = %v, pair count %v", x1, x2, res.U, u))
			}
			var want float64
			switch alt {
			case LocationLess:
				want = float64(le) / float64(total)
			case LocationGreater:
				want = float64(ge) / float64(total)
			default:
				if ties {
					continue // recorded finding D3: exact two-sided p-value with ties
				}
				want = math.Min(1, 2*math.Min(float64(le), float64(ge))/float64(total))
			}
			if !metaClose(res.P, want, 1e-9) {
				fail(fmt.Sprintf("MannWhitneyUTest(%v,%v,%v): P = %v, exact conditional probability %v (%d relabellings)", x1, x2, alt, res.P, want, total))
			}
		}
	}
	if nfail > 0 {
		t.Fatalf("%d failures", nfail)
	}
	fmt.Printf("BOUNDED-OK cases=%d\n", cases)
}
