package stats

// Bounded stand-in (C20) for the schedule clause, which the contract technique
// has no model for: VERIF_BOUND_N goroutines (16) issue the same calls on the
// same shared inputs under the race detector; every result must be bitwise
// equal to the sequential result, the shared inputs must be unchanged, and the
// race detector must stay silent. Inputs are unsorted and contain ties, so any
// internal sort or reordering would be visible. Labelled bounded.

import (
	"fmt"
	"math"
	"os"
	"reflect"
	"strconv"
	"sync"
	"testing"
)

func c20bits(vs ...float64) string {
	s := ""
	for _, v := range vs {
		s += fmt.Sprintf("%016x ", math.Float64bits(v))
	}
	return s
}

func TestBoundedConcurrentStats(t *testing.T) {
	workers := 16
	if v, err := strconv.Atoi(os.Getenv("VERIF_BOUND_N")); err == nil && v > 0 {
		workers = v
	}
	// (spare capacity behind every shared slice: an append into it would be a write to shared storage)
	xs := append(make([]float64, 0, 64), 5, 3, 3, 9, 1, 7, 3, 8, 2, 9, 4.5, 6)
	ys := append(make([]float64, 0, 64), 4, 4, 10, 2, 3, 11, 3, 6, 5.5, 0.5)
	ws := append(make([]float64, 0, 64), 1, 2, 0, 1, 3, 1, 2, 0, 1, 1, 2, 1)
	xs0, ys0, ws0 := append([]float64(nil), xs...), append([]float64(nil), ys...), append([]float64(nil), ws...)
	smp := Sample{Xs: xs, Weights: ws}
	usmp := Sample{Xs: xs}
	kde := &KDE{Sample: usmp, Bandwidth: 1.25}
	kdeB := &KDE{Sample: smp, Bandwidth: 0.75, BoundaryMethod: BoundaryReflect, BoundaryMin: 0, BoundaryMax: 12}
	lh := NewLinearHist(0, 10, 5)
	for _, x := range xs {
		lh.Add(x)
	}
	calls := []func() string{
		func() string {
			r, err := MannWhitneyUTest(xs, ys, LocationDiffers)
			return fmt.Sprint(err) + c20bits(r.U, r.P)
		},
		func() string {
			r, err := MannWhitneyUTest(ys, xs, LocationLess)
			return fmt.Sprint(err) + c20bits(r.U, r.P)
		},
		func() string {
			r, err := TwoSampleWelchTTest(usmp, Sample{Xs: ys}, LocationGreater)
			return fmt.Sprint(err) + c20bits(r.T, r.DoF, r.P)
		},
		func() string { r, err := PairedTTest(xs[:10], ys, 0.5, LocationDiffers); return fmt.Sprint(err) + c20bits(r.T, r.P) },
		func() string { return c20bits(Mean(xs), Variance(xs), StdDev(xs), GeoMean(xs)) },
		func() string { lo, hi := Bounds(xs); return c20bits(lo, hi) },
		func() string { lo, hi := smp.Bounds(); return c20bits(lo, hi, smp.Mean(), smp.GeoMean(), smp.Sum(), smp.Weight(), usmp.Variance(), usmp.StdDev()) },
		func() string { return c20bits(smp.Quantile(0.3), usmp.Quantile(0.5), usmp.Quantile(0.99), smp.IQR(), usmp.IQR()) },
		func() string { m, lo, hi := MeanCI(xs, 0.95); return c20bits(m, lo, hi) },
		func() string {
			ci := QuantileCI(len(xs), 0.5, 0.9)
			q, lo, hi := ci.SampleCI(usmp)
			return fmt.Sprint(ci.LoOrder, ci.HiOrder, ci.Ambiguous) + c20bits(ci.Confidence, q, lo, hi)
		},
		func() string { return c20bits(kde.PDF(4), kde.CDF(4), kdeB.PDF(1), kdeB.CDF(11)) },
		func() string { lo, hi := kde.Bounds(); return c20bits(lo, hi) },
		func() string {
			d := UDist{N1: 4, N2: 5, T: []int{2, 1, 3, 1, 2}}
			return c20bits(d.CDF(7), d.PMF(7.5), UDist{N1: 6, N2: 7}.CDF(11), UDist{N1: 6, N2: 7}.PMF(20))
		},
		func() string { return c20bits(HistogramQuantile(lh, 0.5), HistogramIQR(lh)) + fmt.Sprint(lh.Counts()) },
		func() string {
			return c20bits(NormalDist{1, 2}.InvCDF(0.3), TDist{7}.CDF(1.5), BinomialDist{30, 0.3}.CDF(9), HypergeometicDist{N: 30, K: 12, Draws: 17}.CDF(6), InvCDF(TDist{5})(0.9))
		},
	}
	want := make([]string, len(calls))
	for i, c := range calls {
		want[i] = c()
		if again := c(); again != want[i] {
			fmt.Printf("BOUNDED-FAIL call %d is not deterministic sequentially: %s then %s\n", i, want[i], again)
			t.Fatal("not deterministic")
		}
	}
	var wg sync.WaitGroup
	var mu sync.Mutex
	nfail := 0
	for w := 0; w < workers; w++ {
		wg.Add(1)
		go func(w int) {
			defer wg.Done()
			for rep := 0; rep < 3; rep++ {
				for k := range calls {
					i := (k + w) % len(calls)
					if got := calls[i](); got != want[i] {
						mu.Lock()
						nfail++
						if nfail <= 5 {
							fmt.Printf("BOUNDED-FAIL goroutine %d call %d: %s, sequential result %s\n", w, i, got, want[i])
						}
						mu.Unlock()
					}
				}
			}
		}(w)
	}
	wg.Wait()
	spare := func(s []float64) bool {
		for _, v := range s[len(s):cap(s)] {
			if v != 0 {
				return true
			}
		}
		return false
	}
	if !reflect.DeepEqual(xs, xs0) || !reflect.DeepEqual(ys, ys0) || !reflect.DeepEqual(ws, ws0) || spare(xs) || spare(ys) || spare(ws) {
		nfail++
		fmt.Printf("BOUNDED-FAIL shared inputs modified: xs=%v ys=%v ws=%v\n", xs, ys, ws)
	}
	if nfail > 0 {
		t.Fatalf("%d failures", nfail)
	}
	fmt.Printf("BOUNDED-OK calls=%d goroutines=%d\n", len(calls), workers)
}
