package stats

// Bounded stand-in (C12) for the calculus clauses no contract here can decide:
// the integral of PDF over an interval equals the difference of CDF, CDF is
// non-decreasing from 0 to 1 (mass 1 on the support), the density vanishes
// outside the boundaries, Bounds holds at least 98% of the mass, and the
// bandwidth rules equal their formulas. Labelled bounded. A deterministic
// family of samples (1..BOUND values, with and without weights), the
// Epanechnikov and Gaussian kernels (the delta kernel for the CDF), bandwidths
// from 0.05 to 20 sample spreads and the four boundary configurations;
// integrals by composite Simpson quadrature on sub-intervals split at the
// kernel support end points, tolerance 1e-6.

import (
	"fmt"
	"math"
	"os"
	"sort"
	"strconv"
	"testing"
)

func TestBoundedKDE(t *testing.T) {
	maxN := 6
	if v, err := strconv.Atoi(os.Getenv("VERIF_BOUND_N")); err == nil && v > 0 {
		maxN = v
	}
	nfail, cases := 0, 0
	fail := func(s string) {
		nfail++
		if nfail <= 5 {
			fmt.Println("BOUNDED-FAIL " + s)
		}
	}
	seed := verifSeedC12(2463534242)
	next := func() float64 {
		seed ^= seed << 13
		seed ^= seed >> 7
		seed ^= seed << 17
		return float64(seed>>11) / float64(1<<53)
	}
	const tol = 1e-6
	for n := 1; n <= maxN; n++ {
		for variant := 0; variant < 3; variant++ {
			xs := make([]float64, n)
			for i := range xs {
				xs[i] = math.Round(next()*40) / 4 // ties are likely
			}
			var ws []float64
			if variant == 1 {
				ws = make([]float64, n)
				for i := range ws {
					ws[i] = float64(1 + int(next()*4))
				}
			}
			smp := Sample{Xs: xs, Weights: ws}
			lo, hi := smp.Bounds()
			spread := math.Max(hi-lo, 1)
			for _, kernel := range []KDEKernel{EpanechnikovKernel, GaussianKernel} {
				for _, bwf := range []float64{0.05, 0.3, 1, 5, 20} {
					bw := bwf * spread
					for bc := 0; bc < 4; bc++ {
						k := &KDE{Sample: smp, Kernel: kernel, Bandwidth: bw}
						gap := []float64{0, 0.5 * bw, 3 * bw}[variant]
						switch bc {
						case 1:
							k.BoundaryMin, k.BoundaryMax = lo-gap-0.125, math.Inf(1)
						case 2:
							k.BoundaryMin, k.BoundaryMax = math.Inf(-1), hi+gap+0.125
						case 3:
							k.BoundaryMin, k.BoundaryMax = lo-gap-0.125, hi+gap+0.125
						}
						if bc != 0 && (k.BoundaryMin == 0 || k.BoundaryMax == 0) {
							continue // a zero boundary means "unset" in this API
						}
						cases++
						name := fmt.Sprintf("KDE{xs=%v ws=%v kernel=%d bw=%g boundaries=[%g,%g]}", xs, ws, kernel, bw, k.BoundaryMin, k.BoundaryMax)
						// grid of break points: kernel support ends and boundaries
						reach := 9 * bw
						if kernel == EpanechnikovKernel {
							reach = 3 * bw
						}
						a, b := lo-reach, hi+reach
						if bc == 1 || bc == 3 {
							a = k.BoundaryMin
						}
						if bc == 2 || bc == 3 {
							b = k.BoundaryMax
						}
						brk := []float64{a, b}
						for _, x := range xs {
							for m := -2; m <= 2; m++ {
								for _, h := range []float64{-bw, bw, 0} {
									p := x + h
									if bc == 3 {
										w := k.BoundaryMax - k.BoundaryMin
										for _, q := range []float64{p + float64(2*m)*w, 2*k.BoundaryMin - p + float64(2*m)*w} {
											if q > a && q < b {
												brk = append(brk, q)
											}
										}
									} else {
										for _, q := range []float64{p, 2*k.BoundaryMin - p, 2*k.BoundaryMax - p} {
											if q > a && q < b && !math.IsInf(q, 0) && !math.IsNaN(q) {
												brk = append(brk, q)
											}
										}
									}
								}
							}
						}
						for q := a + bw/2; q < b; q += bw / 2 {
							brk = append(brk, q)
						}
						sort.Float64s(brk)
						total, prevC := 0.0, k.CDF(a)
						if math.Abs(prevC) > tol && (bc == 1 || bc == 3 || kernel == EpanechnikovKernel) {
							fail(fmt.Sprintf("%s: CDF at the lower end %g is %g", name, a, prevC))
						}
						for i := 1; i < len(brk); i++ {
							l, r := brk[i-1], brk[i]
							if r-l < 1e-12 {
								continue
							}
							const m = 64
							h := (r - l) / m
							integ := k.PDF(l+1e-9*(r-l)) + k.PDF(r-1e-9*(r-l))
							for j := 1; j < m; j++ {
								c := 2.0
								if j%2 == 1 {
									c = 4
								}
								v := k.PDF(l + float64(j)*h)
								if v < 0 {
									fail(fmt.Sprintf("%s: PDF(%g) = %g < 0", name, l+float64(j)*h, v))
								}
								integ += c * v
							}
							integ *= h / 3
							c := k.CDF(r)
							if c < prevC-1e-12 {
								fail(fmt.Sprintf("%s: CDF decreases from %g to %g on [%g,%g]", name, prevC, c, l, r))
							}
							if math.Abs(integ-(c-prevC)) > tol {
								fail(fmt.Sprintf("%s: integral of PDF over [%g,%g] = %g, CDF difference %g", name, l, r, integ, c-prevC))
							}
							total += integ
							prevC = c
						}
						if math.Abs(prevC-1) > tol || math.Abs(total-1) > 1e-5 {
							fail(fmt.Sprintf("%s: CDF at the upper end %g is %g, total mass %g", name, b, prevC, total))
						}
						if bc == 1 || bc == 3 {
							if k.PDF(k.BoundaryMin-0.5) != 0 || k.CDF(k.BoundaryMin-0.5) != 0 {
								fail(fmt.Sprintf("%s: density below BoundaryMin", name))
							}
						}
						if bc == 2 || bc == 3 {
							if k.PDF(k.BoundaryMax+0.5) != 0 || k.CDF(k.BoundaryMax+0.5) != 1 {
								fail(fmt.Sprintf("%s: density above BoundaryMax", name))
							}
						}
						bl, bh := k.Bounds()
						if !(bl < bh) || math.IsInf(bl, 0) || math.IsInf(bh, 0) || k.CDF(bh)-k.CDF(bl) < 0.98-1e-9 {
							fail(fmt.Sprintf("%s: Bounds() = [%g,%g] holds mass %g", name, bl, bh, k.CDF(bh)-k.CDF(bl)))
						}
						if (bc == 1 || bc == 3) && bl < k.BoundaryMin || (bc == 2 || bc == 3) && bh > k.BoundaryMax {
							fail(fmt.Sprintf("%s: Bounds() = [%g,%g] outside the boundaries", name, bl, bh))
						}
					}
				}
			}
			// delta kernel: CDF is the weighted empirical CDF
			dk := &KDE{Sample: smp, Kernel: DeltaKernel, Bandwidth: 1}
			for _, x := range append([]float64{lo - 1, hi + 1}, xs...) {
				wsum, below := 0.0, 0.0
				for i, v := range xs {
					w := 1.0
					if ws != nil {
						w = ws[i]
					}
					wsum += w
					if v <= x {
						below += w
					}
				}
				cases++
				if got := dk.CDF(x); math.Abs(got-below/wsum) > 1e-12 {
					fail(fmt.Sprintf("delta KDE{xs=%v ws=%v}.CDF(%g) = %g, empirical %g", xs, ws, x, got, below/wsum))
				}
			}
			if n >= 2 && ws == nil {
				sd := StdDev(xs)
				iqr := smp.IQR()
				scott := 1.06 * math.Min(sd, iqr/1.349) * math.Pow(float64(n), -0.2)
				silver := 1.06 * sd * math.Pow(float64(n), -0.2)
				cases++
				if got := BandwidthScott(smp); math.Abs(got-scott) > 1e-12*math.Max(1, scott) && !(math.IsNaN(got) && math.IsNaN(scott)) {
					fail(fmt.Sprintf("BandwidthScott(%v) = %g, formula %g", xs, got, scott))
				}
				if got := BandwidthSilverman(smp); math.Abs(got-silver) > 1e-12*math.Max(1, silver) && !(math.IsNaN(got) && math.IsNaN(silver)) {
					fail(fmt.Sprintf("BandwidthSilverman(%v) = %g, formula %g", xs, got, silver))
				}
			}
		}
	}
	if nfail > 0 {
		t.Fatalf("%d failures", nfail)
	}
	fmt.Printf("BOUNDED-OK cases=%d maxn=%d\n", cases, maxN)
}

// verifSeedC12 mixes VERIF_SEED (if set) into a generator's initial state, so that
// different seeds explore different pseudo-random inputs; 0 keeps the default.
func verifSeedC12(s uint64) uint64 {
	if v, err := strconv.ParseUint(os.Getenv("VERIF_SEED"), 10, 64); err == nil && v != 0 {
		s ^= v * 0x9E3779B97F4A7C15
		if s == 0 {
			s = 0x9E3779B97F4A7C15
		}
	}
	return s
}
