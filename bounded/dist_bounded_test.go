package stats

// Bounded stand-ins (labelled bounded, never counted as proved) for clauses
// of C05, C06 and C07 that no contract within reach can decide: numerical
// agreement with exact / independent references, and the dispatch and Rand
// wrappers (method values, math/rand state).

import (
	"fmt"
	"math"
	"math/big"
	"math/rand"
	"os"
	"strconv"
	"testing"

	"gonum.org/v1/gonum/mathext"
)

func boundedN(def int) int {
	if v, err := strconv.Atoi(os.Getenv("VERIF_BOUND_N")); err == nil && v > 0 {
		return v
	}
	return def
}

// C05: NormalDist.InvCDF inverts CDF to 1e-9 relative for p down to 1e-300;
// the normal and t CDFs agree with independent evaluations to 1e-9, are
// symmetric about the centre and non-decreasing along a grid.
func TestBoundedNormalT(t *testing.T) {
	dens := boundedN(1)
	nfail, cases := 0, 0
	fail := func(s string) {
		nfail++
		if nfail <= 5 {
			fmt.Println("BOUNDED-FAIL " + s)
		}
	}
	var ps []float64
	for e := -300; e <= -1; e += 5 / minint(dens, 5) {
		ps = append(ps, math.Pow(10, float64(e)), 3*math.Pow(10, float64(e)))
	}
	for i := 1; i < 200*dens; i++ {
		ps = append(ps, float64(i)/float64(200*dens))
	}
	for e := 2; e <= 15; e++ {
		ps = append(ps, 1-math.Pow(10, -float64(e)))
	}
	// (|Mu| <= 10 Sigma: beyond that x = Mu + z*Sigma cannot carry z to the precision the comparison needs)
	for _, d := range []NormalDist{{0, 1}, {3, 1}, {-2.5, 0.75}, {0, 1e-6}, {-1e6, 1e6}, {0, 1e6}, {5e-6, 1e-6}} {
		for _, p := range ps {
			cases++
			x := d.InvCDF(p)
			back := d.CDF(x)
			if !(math.Abs(back-p) <= 1e-9*p) {
				fail(fmt.Sprintf("NormalDist%v: CDF(InvCDF(%g)) = %g (InvCDF = %g, relative error %.3g)", d, p, back, x, (back-p)/p))
			}
		}
		if !math.IsInf(d.InvCDF(0), -1) || !math.IsInf(d.InvCDF(1), 1) || !math.IsNaN(d.InvCDF(-0.1)) || !math.IsNaN(d.InvCDF(1.1)) {
			fail(fmt.Sprintf("NormalDist%v: InvCDF end cases %v %v %v %v", d, d.InvCDF(0), d.InvCDF(1), d.InvCDF(-0.1), d.InvCDF(1.1)))
		}
		prev := 0.0
		for i := -400; i <= 400; i++ {
			z := float64(i) / 10
			x := d.Mu + z*d.Sigma
			c := d.CDF(x)
			want := 0.5 * math.Erfc(-z/math.Sqrt2)
			cases++
			if !(math.Abs(c-want) <= 1e-9) || c < prev || c < 0 || c > 1 {
				fail(fmt.Sprintf("NormalDist%v: CDF(%g) = %g, reference %g, previous %g", d, x, c, want, prev))
			}
			if s := c + d.CDF(d.Mu-z*d.Sigma); !(math.Abs(s-1) <= 1e-9) {
				fail(fmt.Sprintf("NormalDist%v: CDF(c-d)+CDF(c+d) = %g at d = %g", d, s, z*d.Sigma))
			}
			if pdf := d.PDF(x); !(pdf >= 0) || !(math.Abs(pdf*d.Sigma-math.Exp(-z*z/2)/math.Sqrt(2*math.Pi)) <= 1e-9) {
				fail(fmt.Sprintf("NormalDist%v: PDF(%g) = %g", d, x, pdf))
			}
			prev = c
		}
	}
	var vs []float64
	for i := 0; i <= 10*dens; i++ {
		vs = append(vs, 0.1*math.Pow(1e5, float64(i)/float64(10*dens)))
	}
	vs = append(vs, 1, 2, 3, 30)
	for _, v := range vs {
		d := TDist{v}
		prev := 0.0
		for i := -400; i <= 400; i++ {
			x := float64(i) / 10
			c := d.CDF(x)
			// reference: 1 - I_{v/(v+x^2)}(v/2, 1/2)/2 for x >= 0, mirrored below
			tail := 0.5 * mathext.RegIncBeta(v/2, 0.5, v/(v+x*x))
			want := 1 - tail
			if x < 0 {
				want = tail
			}
			cases++
			if !(math.Abs(c-want) <= 1e-9) || c < prev-1e-12 || c < 0 || c > 1 {
				fail(fmt.Sprintf("TDist{%g}.CDF(%g) = %g, reference %g, previous %g", v, x, c, want, prev))
			}
			if s := c + d.CDF(-x); !(math.Abs(s-1) <= 1e-9) {
				fail(fmt.Sprintf("TDist{%g}: CDF(-x)+CDF(x) = %g at x = %g", v, s, x))
			}
			prev = c
		}
	}
	if nfail > 0 {
		t.Fatalf("%d failures", nfail)
	}
	fmt.Printf("BOUNDED-OK cases=%d\n", cases)
}

func ratPow(x *big.Rat, n int) *big.Rat {
	r := big.NewRat(1, 1)
	for i := 0; i < n; i++ {
		r.Mul(r, x)
	}
	return r
}

// C06: PMF/CDF of the binomial and hypergeometric distributions against exact
// rational arithmetic (1e-10), floor semantics, zero outside the support.
func TestBoundedDiscrete(t *testing.T) {
	maxN := boundedN(14)
	nfail, cases := 0, 0
	fail := func(s string) {
		nfail++
		if nfail <= 5 {
			fmt.Println("BOUNDED-FAIL " + s)
		}
	}
	const tol = 1e-10
	for n := 0; n <= 2*maxN; n++ {
		for pi := 0; pi <= 20; pi++ {
			p := big.NewRat(int64(pi), 20)
			pf, _ := p.Float64()
			d := BinomialDist{n, pf}
			q := new(big.Rat).Sub(big.NewRat(1, 1), p)
			cum := new(big.Rat)
			for k := -1; k <= n+1; k++ {
				cases++
				exact := new(big.Rat)
				if k >= 0 && k <= n {
					exact.SetInt(new(big.Int).Binomial(int64(n), int64(k)))
					exact.Mul(exact, ratPow(p, k)).Mul(exact, ratPow(q, n-k))
				}
				cum.Add(cum, exact)
				ef, _ := exact.Float64()
				cf, _ := cum.Float64()
				for _, kk := range []float64{float64(k), float64(k) + 0.5} {
					if got := d.PMF(kk); !(math.Abs(got-ef) <= tol) {
						fail(fmt.Sprintf("BinomialDist{%d,%g}.PMF(%g) = %g, exact %g", n, pf, kk, got, ef))
					}
					if got := d.CDF(kk); !(math.Abs(got-cf) <= tol) {
						fail(fmt.Sprintf("BinomialDist{%d,%g}.CDF(%g) = %g, exact %g", n, pf, kk, got, cf))
					}
				}
			}
		}
	}
	for n := 2; n <= maxN; n++ {
		for kk := 0; kk <= n; kk++ {
			for dr := 0; dr <= n; dr++ {
				d := HypergeometicDist{N: n, K: kk, Draws: dr}
				den := new(big.Rat).SetInt(new(big.Int).Binomial(int64(n), int64(dr)))
				cum := new(big.Rat)
				lo, hi := d.Bounds()
				wantLo, wantHi := maxint(0, dr+kk-n), minint(dr, kk)
				if lo != float64(wantLo) || hi != float64(wantHi) {
					fail(fmt.Sprintf("%+v.Bounds() = %g,%g, want %d,%d", d, lo, hi, wantLo, wantHi))
				}
				for k := -1; k <= n+1; k++ {
					cases++
					exact := new(big.Rat)
					if k >= wantLo && k <= wantHi {
						exact.SetInt(new(big.Int).Mul(new(big.Int).Binomial(int64(kk), int64(k)), new(big.Int).Binomial(int64(n-kk), int64(dr-k))))
						exact.Quo(exact, den)
					}
					cum.Add(cum, exact)
					ef, _ := exact.Float64()
					cf, _ := cum.Float64()
					for _, x := range []float64{float64(k), float64(k) + 0.5} {
						if got := d.PMF(x); !(math.Abs(got-ef) <= tol) {
							fail(fmt.Sprintf("%+v.PMF(%g) = %g, exact %g", d, x, got, ef))
						}
						if got := d.CDF(x); !(math.Abs(got-cf) <= tol) {
							fail(fmt.Sprintf("%+v.CDF(%g) = %g, exact %g", d, x, got, cf))
						}
					}
				}
			}
		}
	}
	if nfail > 0 {
		t.Fatalf("%d failures", nfail)
	}
	fmt.Printf("BOUNDED-OK cases=%d maxn=%d\n", cases, maxN)
}

type boundedOwn struct{ NormalDist }

func (boundedOwn) InvCDF(y float64) float64       { return 42 + y }
func (boundedOwn) Rand(r *rand.Rand) float64      { return -7 }

type boundedLogistic struct{ mu, s float64 }

func (d boundedLogistic) CDF(x float64) float64       { return 1 / (1 + math.Exp(-(x-d.mu)/d.s)) }
func (d boundedLogistic) Bounds() (float64, float64)  { return d.mu - 10*d.s, d.mu + 10*d.s }

// C07: a distribution's own InvCDF / Rand method is what InvCDF / Rand return;
// the generic Rand is a deterministic function of the source: the inverse CDF
// of its uniform draws, zeros skipped.
func TestBoundedInvRand(t *testing.T) {
	draws := 200 * boundedN(1)
	nfail, cases := 0, 0
	fail := func(s string) {
		nfail++
		if nfail <= 5 {
			fmt.Println("BOUNDED-FAIL " + s)
		}
	}
	own := boundedOwn{NormalDist{0, 1}}
	for i := 0; i <= 20; i++ {
		y := float64(i) / 20
		cases++
		if got := InvCDF(own)(y); got != 42+y {
			fail(fmt.Sprintf("InvCDF of a distribution with its own method: %g, want %g", got, 42+y))
		}
		n := NormalDist{1, 2}
		if got, want := InvCDF(n)(y), n.InvCDF(y); got != want && !(math.IsNaN(got) && math.IsNaN(want)) {
			fail(fmt.Sprintf("InvCDF(NormalDist)(%g) = %g, method gives %g", y, got, want))
		}
	}
	if got := Rand(own)(rand.New(rand.NewSource(1))); got != -7 {
		fail(fmt.Sprintf("Rand of a distribution with its own method: %g, want -7", got))
	}
	for _, d := range []DistCommon{boundedLogistic{0, 1}, boundedLogistic{-3, 0.25}, TDist{3}} {
		inv := InvCDF(d)
		g := Rand(d)
		r1, r2, r3 := rand.New(rand.NewSource(7)), rand.New(rand.NewSource(7)), rand.New(rand.NewSource(7))
		for i := 0; i < draws; i++ {
			cases++
			a, b := g(r1), g(r2)
			y := r3.Float64()
			for y == 0 {
				y = r3.Float64()
			}
			if a != b || a != inv(y) {
				fail(fmt.Sprintf("Rand(%+v) draw %d: %g and %g from equal sources, inverse CDF of the uniform draw %g", d, i, a, b, inv(y)))
			}
		}
	}
	if nfail > 0 {
		t.Fatalf("%d failures", nfail)
	}
	fmt.Printf("BOUNDED-OK cases=%d draws=%d\n", cases, draws)
}
