#!/bin/sh
# usage: ./check.sh <property-id> [quick|thorough]
# Runs the gowp contract verifier for one property against /repo's current
# working tree. Exit 0: every obligation discharged; exit 1: VIOLATION lines.
export GOFLAGS=-mod=mod GOPROXY=off GOSUMDB=off GOTOOLCHAIN=local
cd /verif || exit 2
if [ ! -x /verif/bin/gowp ] || [ -n "$(find /verif/gowp -name '*.go' -newer /verif/bin/gowp 2>/dev/null | head -1)" ]; then
	./setup.sh >/dev/null 2>&1 || { echo "gowp build failed"; exit 2; }
fi
/verif/bin/gowp check -prop "$1" -tier "${2:-quick}"
rc=$?
# bounded stand-ins for assumed contracts (labelled bounded in the evidence)
python3 /verif/bounded/run.py "$1" "${2:-quick}" || rc=1
if [ "${2:-quick}" = thorough ] && [ $rc -eq 0 ]; then
	# second part of the thorough tier: the must-fail mutants recorded for
	# this property (sensitivity of the obligations); informational
	python3 /verif/selftest/sensitivity.py "$1"
fi
exit $rc
